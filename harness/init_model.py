"""Real initialisation (concrete): season crops with every derived parameter, real ParamStruct / InitialCondition objects."""
import copy
import warnings

warnings.filterwarnings("ignore")

from aquacrop import AquaCropModel, Soil, Crop, InitialWaterContent, IrrigationManagement, FieldMngt, GroundWater
from aquacrop.utils import prepare_weather, get_filepath

_W = {}


def weather(name="champion_climate.txt"):
    if name not in _W:
        _W[name] = prepare_weather(get_filepath(name))
    return _W[name].copy()


WINDOWS = [("champion_climate.txt", "1982/05/01", "1984/12/30", "05/01"),
           ("hyderabad_climate.txt", "2000/06/01", "2002/12/30", "06/01"),
           ("tunis_climate.txt", "1979/10/01", "1981/09/30", "10/01")]

_SC = {}


def season_crop(name, **kw):
    """Seasonal crop object as the real _initialize() builds it (calendar, CGC/CDC, HIGC, fCO2, ...). None if the
    real initialisation rejects the crop for every window tried."""
    key = (name, tuple(sorted(kw.items())))
    if key not in _SC:
        _SC[key] = None
        for wf, start, end, plant in WINDOWS:
            try:
                m = AquaCropModel(start, end, weather(wf), Soil("SandyLoam"), Crop(name, planting_date=plant, **kw), InitialWaterContent(value=["FC"]))
                m._initialize()
                _SC[key] = m._param_struct.Seasonal_Crop_List[0]
                break
            except (AssertionError, ValueError, KeyError, IndexError, ZeroDivisionError):
                continue
    c = _SC[key]
    return copy.deepcopy(c) if c is not None else None


def model(crop="Maize", soil="SandyLoam", start="1982/05/01", end="1982/10/30", plant="05/01", wf="champion_climate.txt", iwc="FC",
          irr=None, field=None, fallow=None, gw=None, off_season=False, crop_kw=None, soil_obj=None, wdf=None):
    m = AquaCropModel(start, end, wdf if wdf is not None else weather(wf), soil_obj if soil_obj is not None else Soil(soil),
                      Crop(crop, planting_date=plant, **(crop_kw or {})), InitialWaterContent(value=[iwc]),
                      irrigation_management=irr, field_management=field, fallow_field_management=fallow, groundwater=gw, off_season=off_season)
    return m
