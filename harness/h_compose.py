"""Composition harness: the REAL solution_single_time_step with contract stubs for the processes (DESIGN.md 4.2).
Checks the wiring of the day: which value is passed where, that fluxes of step 4/5 are carried into step 7, that PreIrr is
added once, what is written to the output rows, the season/maturity/harvest logic and the summary row."""
import copy
import types
import numpy as np

import symx
from symx import harness, And, Or, Not, Implies, If, stubbed, SArr, SI
from .common import build_profile, prof_for, storage, approx
from .compose import Stubs, Table, FinalStats, make_state, make_params, FLUX_COLS, GROWTH_COLS, TS_MOD
from .init_model import season_crop

import aquacrop.timestep.run_single_timestep as MS


def _configs(tier):
    out = []
    base = dict(in_season=True, method=0, bunds=False, wt=0, mature=False, dead=False, harvest_flag=False, dies_today=False, crop="Maize", pre_first=False)
    variants = [
        ("season-rainfed", {}),
        ("season-threshold-irrigation", dict(method=1)),
        ("season-net-irrigation", dict(method=4)),
        ("season-bunds-schedule", dict(method=3, bunds=True)),
        ("season-watertable", dict(wt=1)),
        ("season-crop-dies", dict(dies_today=True)),
        ("after-harvest-same-season", dict(in_season="after", harvest_flag=True, mature=True)),
        ("before-first-season", dict(in_season=False, pre_first=True)),
        ("fallow-bunds-removed", dict(in_season="after", harvest_flag=True, mature=True, bunds=True)),
        ("season-cn-adjust-flag", dict(cn_adj=True)),
        ("season-mulch-inhibit", dict(mulches=True, sr_inhb=True, method=5)),
        ("thermal-time-crop-season", dict(crop="WheatGDD")),
    ]
    if tier != "quick":
        variants += [("season-interval-irrigation-bunds-wt", dict(method=2, bunds=True, wt=1)),
                     ("season-net-irrigation-wt", dict(method=4, wt=1)),
                     ("wheat-season", dict(crop="Wheat")), ("potato-season", dict(crop="Potato", method=1)),
                     ("fallow-both-bunds", dict(in_season="after", harvest_flag=True, mature=True, bunds=True, fallow_bunds=True))]
    for name, d in variants:
        c = dict(base); c.update(d)
        out.append((name, c))
    return out


@harness("timestep", modules=[TS_MOD], props=["C01", "C02", "C04", "C05", "C06", "C07", "C12", "C16", "C20"], configs=_configs,
         goals=["season-day", "maturity-reached", "summary-row-written", "off-season-day"])
def h_timestep(ctx, cfg):
    n = 2
    soil, base = build_profile(["SandyLoam"] * n, [0.1, 0.2], water_table=cfg["wt"])
    prof = prof_for(ctx, base)
    crop = season_crop(cfg["crop"])
    if cfg["pre_first"]:
        crop.Aer = 15.0; crop.Zmin = 0.2        # (Barley-like values) the pre-season filler crop gets Aer=5, Zmin=0.3: the season crop must keep its own
    crop0 = copy.copy(crop)
    ps = make_params(ctx, soil, base, prof, crop, cfg)
    ins = cfg["in_season"]
    ic = make_state(ctx, base, n, crop, ins is True, cfg)
    today = ctx.int("today", 0, 100000)
    planting = ctx.int("planting", 0, 100000)
    harvest = ctx.int("harvest_date", 0, 100000)
    ctx.assume(planting < harvest)
    tsc = 3
    if cfg["pre_first"]:
        sc = -1
        ctx.assume(today < planting)
        ic.dap = 0
    else:
        sc = 0
        ctx.assume(And(planting <= today, today < harvest))
        if ins is True:
            ic.dap = today - planting                     # INV: days simulated in this season so far
        else:
            ic.dap = 0
    clock = types.SimpleNamespace(time_step_counter=tsc, season_counter=sc, step_start_time=today, step_end_time=today + 1,
                                  planting_dates=[planting, planting + 365, planting + 730], harvest_dates=[harvest, harvest + 365, harvest + 730],
                                  evap_time_steps=20, sim_off_season=cfg.get("off", False))
    if cfg["wt"]:
        ps.z_gw = [None, None, None, ctx.real("z_gw", 0, 40)]
    tmin = ctx.real("Tmin", -30, 60); tmax = ctx.real("Tmax", -30, 60)
    ctx.assume(tmin <= tmax)
    P = ctx.real("P", 0, 300); et0 = ctx.real("ET0", 0.1, 20)
    weather = [tmin, tmax, P, et0, today]
    outputs = types.SimpleNamespace(water_storage=Table(3 + n), water_flux=Table(16), crop_growth=Table(15), final_stats=FinalStats())
    st = Stubs(ctx, base, n, cfg)
    # snapshots
    th0 = list(ic.th); ss0 = ic.surface_storage; dap0 = ic.dap; gddcum0 = ic.gdd_cum; irr_cum0 = ic.irr_cum; irr_net0 = ic.irr_net_cum
    S0 = storage(base, th0)
    im0 = copy.copy(ps.IrrMngt.__dict__); fm0 = copy.copy(ps.FieldMngt.__dict__); ff0 = copy.copy(ps.FallowFieldMngt.__dict__)
    with stubbed(st.table()):
        nc, ps2, out2 = MS.solution_single_time_step(ic, ps, clock, weather, outputs)
    rows, flux = outputs.water_flux.row()
    F = dict(zip(FLUX_COLS, flux))
    _, stor = outputs.water_storage.row()
    _, growth = outputs.crop_growth.row()
    G = dict(zip(GROWTH_COLS, growth))
    th_row = stor[3:]
    gs = st.seen["evap"]["gs"]
    method = cfg["method"]
    for k in ("Infl", "Runoff", "DeepPerc", "Es", "Tr", "IrrDay", "surface_storage"):
        ctx.out(k, F[k])
    # ---- C01 day balance on the rows written
    netirr = F["IrrDay"] if (method == 4 and gs is True) else 0
    S1 = storage(base, th_row) + F["surface_storage"]
    rhs = F["Infl"] + netirr + F["CR"] + F["GwIn"] - F["DeepPerc"] - F["Es"] - F["Tr"]
    tol_cr = 0.05 * float(base.dzsum[-1]) if cfg["wt"] else 0
    ctx.prove("C01:daily balance closes on the reported rows", And(S1 - S0 - ss0 - rhs <= tol_cr + 1e-8, S1 - S0 - ss0 - rhs >= -tol_cr - 1e-8))
    ctx.prove("C01:state carried to the next day equals the reported storage row",
              And(*[a == b for a, b in zip(list(nc.th), th_row)], nc.surface_storage == F["surface_storage"]))
    # ---- C02 partition on the rows
    inf = st.seen["inf"]
    eff = ps.IrrMngt.AppEff if sc >= 0 else ps.FallowIrrMngt.AppEff
    irr_applied = (inf["irr"] * (eff / 100)) if gs is True else 0
    ctx.prove("C02:rain + efficiency-adjusted irrigation = Infl + Runoff on the reported row", approx(F["Infl"] + F["Runoff"], P + irr_applied, 1e-8))
    ctx.prove("C02:0 <= Runoff <= rain + applied irrigation + ponded", And(F["Runoff"] >= -1e-9, F["Runoff"] <= P + irr_applied + ss0 + 1e-8))
    fm_today = ps.FieldMngt if gs is True else ps.FallowFieldMngt
    ctx.prove("C02:Infl < 0 only without bunds, with ponded water, and by no more than it",
              Implies(F["Infl"] < -1e-9, And(ss0 > 0, F["Infl"] >= -ss0 - 1e-8, fm_today.bunds is False)))
    ctx.prove("C02:the irrigation reported is the irrigation infiltrated", approx(inf["irr"], F["IrrDay"], 0) if (gs is True and method != 4) else True)
    ctx.prove("C02:rainfall partition and infiltration see the day's field management",
              And(st.seen["rain"]["bunds"] is fm_today.bunds, inf["bunds"] is fm_today.bunds, st.seen["rain"]["zb"] is fm_today.z_bund, inf["zb"] is fm_today.z_bund))
    # ---- C04 signs
    ctx.prove("C04:reported fluxes non-negative",
              And(*[F[k] >= -1e-9 for k in ("Runoff", "DeepPerc", "CR", "GwIn", "Es", "EsPot", "Tr", "TrPot")], F["IrrDay"] >= -0.01 * n - 1e-9))
    ctx.prove("C04:Es<=EsPot and Tr<=TrPot on the reported row", And(F["Es"] <= F["EsPot"] + 1e-9, F["Tr"] <= F["TrPot"] + 1e-9))
    if gs is not True:
        ctx.prove("C04:no transpiration or irrigation reported outside the growing season", And(F["Tr"] == 0, F["TrPot"] == 0, F["IrrDay"] == 0))
        ctx.prove("C05:crop outputs are zero outside the growing season",
                  And(*[G[k] == 0 for k in ("dap", "canopy_cover", "canopy_cover_ns", "biomass", "biomass_ns", "harvest_index", "harvest_index_adj", "DryYield", "FreshYield", "YieldPot", "z_root")]))
        ctx.reach("off-season-day")
    else:
        ctx.reach("season-day")
        ctx.prove("C05:cumulative degree days add up", approx(G["gdd_cum"], gddcum0 + G["gdd"], 1e-9))
        ctx.prove("C05,C07:days after planting advance by exactly one", G["dap"] == dap0 + 1)
        ctx.prove("C07:days after planting = date - planting date + 1", G["dap"] == today - planting + 1)
        ctx.prove("C06:dry yield = biomass x adjusted harvest index", approx(G["DryYield"], (G["biomass"] / 100) * G["harvest_index_adj"], 1e-9))
        ctx.prove("C06:fresh yield = dry yield / dry-matter fraction", approx(G["FreshYield"] * (float(crop.YldWC) / 100), G["DryYield"], 1e-9))
        ctx.prove("C06:seasonal irrigation counter advances by the day's irrigation",
                  approx(nc.irr_net_cum, irr_net0 + F["IrrDay"], 1e-9) if method == 4 else approx(nc.irr_cum, irr_cum0 + F["IrrDay"], 1e-9))
        ctx.prove("C06:the process functions receive today's weather",
                  And(st.seen["gdd"]["tmax"] is tmax, st.seen["gdd"]["tmin"] is tmin, st.seen["rain"]["P"] is P, st.seen["evap"]["rain"] is P,
                      st.seen["tr"]["et0"] is et0, st.seen["bio"]["et0"] is et0, st.seen["hi"]["tmax"] is tmax, st.seen["hi"]["tmin"] is tmin))
    ctx.prove("C06:potential yield = no-stress biomass x harvest index", approx(G["YieldPot"], (G["biomass_ns"] / 100) * G["harvest_index"], 1e-9))
    # ---- C07 row indices
    ctx.prove("C07:every daily table row is written at, and carries, the step index of its date",
              And(*[r == tsc for r in rows], F["time_step_counter"] == tsc, G["time_step_counter"] == tsc, stor[0] == tsc,
                  F["season_counter"] == sc, G["season_counter"] == sc, F["dap"] == G["dap"], stor[2] == G["dap"]))
    # ---- C06/C07 maturity, harvest, summary row
    wrote = len(outputs.final_stats.rows)
    if gs is True:
        mat = (G["dap"] >= float(crop.Maturity)) if crop.CalendarType == 1 else (G["gdd_cum"] >= float(crop.Maturity))
        ctx.prove("C07:crop is mature exactly from the first day days-after-planting (or cumulative degree days) reaches maturity", (nc.crop_mature is True) == mat if not isinstance(mat, bool) else (nc.crop_mature is mat))
        ends = Or(mat, nc.crop_dead is True, harvest == today + 1)
        ctx.prove("C06,C07:season ends (summary row written, harvest flag set) exactly at maturity, crop death or the latest harvest date",
                  And(ends, wrote == 1, nc.harvest_flag is True) if wrote else And(Not(ends), nc.harvest_flag is False))
        if ctx.feasible(mat):
            ctx.reach("maturity-reached")
    else:
        ctx.prove("C06:no second summary row for a season already harvested", wrote == 0 if cfg["harvest_flag"] else True)
    if wrote:
        key, row = outputs.final_stats.rows[0]
        ctx.reach("summary-row-written")
        irrtot = nc.irr_net_cum if method == 4 else nc.irr_cum
        ctx.prove("C06:summary row repeats the harvest day's values",
                  And(key == sc, row[0] == sc, row[2] == today + 1, row[3] == tsc, row[4] == G["DryYield"], row[5] == G["FreshYield"], row[6] == G["YieldPot"],
                      (row[7] == irrtot) if gs is True else (row[7] == 0)))
    # ---- C12 frame: management structs untouched; season crop untouched
    ctx.prove("C12:management settings not written by the time step",
              And(*[ps.IrrMngt.__dict__[k] is v for k, v in im0.items()], *[ps.FieldMngt.__dict__[k] is v for k, v in fm0.items()],
                  *[ps.FallowFieldMngt.__dict__[k] is v for k, v in ff0.items()]))
    ctx.prove("C12:season crop parameters not written by the time step",
              And(*[(ps.Seasonal_Crop_List[0].__dict__[k] is v) or (not isinstance(v, np.ndarray) and ps.Seasonal_Crop_List[0].__dict__[k] == v) for k, v in crop0.__dict__.items() if not isinstance(v, np.ndarray)]))
    # ---- C20: the curve-number adjustment percentage only counts with its flag
    pct_seen = st.seen["rain"]["pct"]
    if not cfg.get("cn_adj", False):
        ctx.prove("C02,C20:curve-number adjustment percentage has no effect without its flag (the effective curve number is the soil's)", pct_seen == 0 if not isinstance(pct_seen, (int, float)) else pct_seen == 0)
    else:
        ctx.prove("C20:curve-number adjustment percentage is the day's management value", pct_seen is fm_today.curve_number_adj_pct)
