"""Leaf harness: real aquacrop.solution.infiltration.infiltration from an arbitrary INV state."""
from symx import harness, And, Or, Not, Implies
from .common import build_profile, prof_for, storage, approx, profile_catalogue, prof_snapshot, prove_prof_unchanged

import aquacrop.solution.infiltration as M


def _configs(tier):
    out = []
    ns = [2]        # 3 compartments: > 1 h for one configuration on 16 cores (measured) - outside the bound for this harness
    for n in ns:
        cat = profile_catalogue(tier, n, heavy=True)
        if tier != "quick":
            cat = cat[::2] + cat[-5:-2]        # every second built-in soil + the layered profiles
        if n == 3:
            cat = [c for c in cat if c[0][0] != c[0][-1]][2:3] + cat[7:8]      # one layered (PaddyTop over PaddyPan) and one uniform 3-compartment profile
        for layers, dzs in cat:
            for bunds in (False, True):
                for gs in ((True, False) if n == 2 else (True,)):
                    if tier == "quick" and not gs and layers[0] not in ("PaddyTop",):
                        continue
                    if tier == "quick" and layers[0] in ("Paddy", "Clay"):
                        continue
                    if tier == "quick" and layers[0] == "SandyLoam" and layers[-1] == "SandyLoam" and bunds:
                        continue
                    out.append((f"{'/'.join(layers)}|{','.join(map(str, dzs))}|bunds={int(bunds)}|gs={int(gs)}",
                                {"layers": layers, "dzs": dzs, "bunds": bunds, "gs": gs}))
        if n == 2:
            # bunds switched on with the default height 0 (FieldMngt(bunds=True)): must behave like a field without bunds
            out.append((f"{'/'.join(cat[0][0])}|zero-height-bunds", {"layers": cat[0][0], "dzs": cat[0][1], "bunds": True, "gs": True, "lowbund": True}))
    return out


@harness("infiltration", modules=["aquacrop.solution.infiltration"], props=["C01", "C02", "C03", "C04", "C12", "C16", "C20"],
         configs=_configs, goals=["bund-overtopped", "backed-up-to-surface", "ponding-released"])
def h_infiltration(ctx, cfg):
    soil, base = build_profile(cfg["layers"], cfg["dzs"])
    prof = prof_for(ctx, base)
    n = len(cfg["dzs"])
    bunds, gs = cfg["bunds"], cfg["gs"]
    th = ctx.arr("th", n, lo=base.th_dry, hi=base.th_s)
    fca = ctx.arr("fca", n, lo=base.th_fc, hi=base.th_s)
    ss = ctx.real("surface_storage", 0, 500)   # without bunds: water left behind by bunds that were removed
    infl0 = ctx.real("Infl_in", 0, 300)
    irr = ctx.real("Irr", 0, 500)
    eff = ctx.real("AppEff", 0, 100)
    low = cfg.get("lowbund", False)
    zb = (ctx.real("z_bund", 0, 0.001) if low else ctx.real("z_bund", 0.0011, 500)) if bunds else ctx.real("z_bund", 0, 500)
    if bunds and not low:
        ctx.assume(ss <= zb)    # INV: ponding never exceeds the bund height
    if low:
        bunds_eff = False
    else:
        bunds_eff = bunds
    flux = ctx.arr("FluxOut", n, lo=0, hi=base.Ksat)
    flux0 = list(flux)
    dp0 = ctx.real("DeepPerc0", 0, 1e4)
    ro0 = ctx.real("Runoff0", 0, 300)
    snap = prof_snapshot(prof)
    th0 = list(th)
    m0 = ctx.mark()
    before = storage(base, th) + ss
    thn, ssn, dp, ro, infl, fl = M.infiltration(prof, ss, fca, th, infl0, irr, eff, cfg["bunds"], zb, flux, dp0, ro0, gs)
    after = storage(base, thn) + ssn
    d_ro = ro - ro0
    d_dp = dp - dp0
    applied = infl0 + (irr * (eff / 100) if gs else 0)
    ctx.out("thnew", thn); ctx.out("ss", ssn); ctx.out("DeepPerc", dp); ctx.out("Runoff", ro); ctx.out("Infl", infl)
    ctx.prove("C01:infiltration balance S'+ss'=S+ss+Infl-dDeepPerc", approx(after, before + infl - d_dp, 1e-9))
    ctx.prove("C02:rain+eff*irr = Infl+Runoff (infiltration step)", approx(infl + d_ro, applied, 1e-9))
    ctx.prove("C02,C04:runoff added by infiltration >= 0", d_ro >= -1e-12)
    ctx.prove("C02:runoff <= applied water + ponding", d_ro <= applied + ss + 1e-9)
    ctx.prove("C04:deep percolation added by infiltration >= 0", d_dp >= -1e-12)
    ctx.prove("C02:Infl >= -ponded", infl >= -ss - 1e-9)
    real_bunds = bunds
    bunds = bunds_eff
    if bunds:
        ctx.prove("C02:Infl >= 0 with bunds", infl >= -1e-12)
    else:
        ctx.prove("C02:Infl < 0 only if water was ponded", Implies(infl < -1e-12, ss > 0))
    ctx.prove("C02:nothing in, nothing ponded => Infl=Runoff=0",
              Implies(And(applied <= 0, ss <= 0), And(approx(infl, 0, 1e-12), approx(d_ro, 0, 1e-12))))
    ctx.prove("C03:ponding >= 0", ssn >= -1e-12)
    if bunds:
        ctx.prove("C03:ponding <= bund height", ssn <= zb + 1e-12)
    else:
        ctx.prove("C02,C03:no bunds => nothing stays ponded (ponded water is released once)", approx(ssn, 0, 1e-12))
    ctx.prove("C03:th<=th_s after infiltration", And(*[thn[i] <= float(base.th_s[i]) + 1e-12 for i in range(n)]))
    ctx.prove("C03:th not lowered by infiltration", And(*[thn[i] >= th0[i] - 1e-12 for i in range(n)]))
    if not cfg["bunds"]:
        def rerun(alt):
            fl2 = ctx.const_arr(list(flux0))
            r = M.infiltration(prof, ss, fca, ctx.const_arr(th0), infl0, irr, eff, False, alt["z_bund"], fl2, dp0, ro0, gs)
            return [r[1], r[2], r[3], r[4]] + list(r[0])
        ctx.prove_independent("C20:bund height has no effect without bunds (infiltration)", ["z_bund"], [ssn, dp, ro, infl] + list(thn), rerun, since=m0)
    ctx.prove("C12:infiltration leaves its input th untouched", And(*[a == b for a, b in zip(list(th), th0)]))
    prove_prof_unchanged(ctx, prof, snap, "C12:infiltration")
    if bunds and ctx.feasible(And(ssn >= zb, d_ro > 0)):
        ctx.reach("bund-overtopped")
    if not bunds and ctx.feasible(And(d_ro > 0, applied < float(base.Ksat[0]))):
        ctx.reach("backed-up-to-surface")
    if not bunds and ctx.feasible(infl < 0):
        ctx.reach("ponding-released")
