"""Pipeline harnesses (DESIGN.md 4.4): the real AquaCropModel._initialize() and the real day prologue run on a weather table whose
numeric cells are proxies named after their column and date.
C15: the value bound to each weather variable on day d is, for all values, the proxy named (variable, d).
C14: records outside the window / after a cut day are proxies that must never reach an output or a branch."""
import itertools
import types
import numpy as np
import pandas as pd
import symx
from symx import harness, And, Or, Not, Implies, stubbed, SF
from .init_model import weather

from aquacrop import AquaCropModel, Soil, Crop, InitialWaterContent, IrrigationManagement

COLS = ["MinTemp", "MaxTemp", "Precipitation", "ReferenceET", "Date"]
NUM = COLS[:4]
RANGES = {"MinTemp": (-30, 40), "MaxTemp": (-30, 60), "Precipitation": (0, 300), "ReferenceET": (0.01, 20)}


class _Stop(BaseException):
    pass


def _proxy_table(ctx, base, dates_symbolic):
    """object-dtype copy of base; cells of rows whose Date is in dates_symbolic become named proxies"""
    df = base.astype({c: object for c in NUM}).reset_index(drop=True)
    cells = {}
    for i in range(len(df)):
        d = df.at[i, "Date"]
        if d in dates_symbolic:
            for c in NUM:
                lo, hi = RANGES[c]
                v = ctx.real(f"{c}@{pd.Timestamp(d).date()}", lo, hi)
                df.at[i, c] = v
                cells[(c, pd.Timestamp(d))] = v
    return df, cells


def _c15_configs(tier):
    out = []
    perms = list(itertools.permutations(COLS))
    if tier == "quick":
        perms = perms[::11]
    for k, perm in enumerate(perms):
        out.append((f"order={','.join(perm)}", dict(order=list(perm), extra=None, index="default", pad=0)))
    out.append(("extra-column-first", dict(order=COLS, extra="first", index="default", pad=0)))
    out.append(("extra-column-middle", dict(order=COLS, extra="middle", index="default", pad=0)))
    out.append(("extra-column-last+offset-index", dict(order=COLS, extra="last", index="offset", pad=0)))
    out.append(("leading+trailing-rows,shuffled-index", dict(order=COLS, extra=None, index="shuffled", pad=40)))
    out.append(("leading-rows,date-index", dict(order=COLS, extra=None, index="date", pad=25)))
    out.append(("leading-rows,index-from-5", dict(order=COLS, extra=None, index="from5", pad=20)))
    out.append(("extra-column-with-gaps", dict(order=COLS, extra="gaps", index="default", pad=0)))
    out.append(("reordered+extra+padding+offset-index", dict(order=["Date", "ReferenceET", "MaxTemp", "MinTemp", "Precipitation"], extra="middle", index="offset", pad=17)))
    return out


@harness("weather_binding", modules=[], props=["C15", "C16"], configs=_c15_configs, goals=["bound-by-name-and-date"], raise_props=["C15", "C16"])
def h_binding(ctx, cfg):
    start, end = pd.Timestamp("1979-10-01"), pd.Timestamp("1980-05-30")
    w = weather("tunis_climate.txt")
    pad = cfg["pad"]
    w = w[(w.Date >= start - pd.Timedelta(days=pad)) & (w.Date <= end + pd.Timedelta(days=pad))].reset_index(drop=True)
    probe_days = [0, 1, 7, 30]
    span = pd.date_range(start, end)
    sym_dates = {span[k] for k in probe_days}
    df, cells = _proxy_table(ctx, w, sym_dates)
    if cfg["extra"] == "gaps":
        df["Humidity"] = 55.0
        df.loc[[3, 4, 5, 20], "Humidity"] = np.nan       # an unrelated column with missing values inside the window
    elif cfg["extra"]:
        order = list(cfg["order"])
        pos = {"first": 0, "middle": 2, "last": len(order)}[cfg["extra"]]
        order.insert(pos, "WindSpeed")
        df["WindSpeed"] = 3.3
        df = df[order]
    else:
        df = df[list(cfg["order"])]
    if cfg["index"] == "offset":
        df.index = range(1000, 1000 + len(df))
    elif cfg["index"] == "from5":
        df.index = range(5, 5 + len(df))
    elif cfg["index"] == "shuffled":
        rs = np.random.RandomState(5)
        df.index = rs.permutation(len(df))
    elif cfg["index"] == "date":
        df.index = pd.DatetimeIndex(df["Date"].values)
    m = AquaCropModel("1979/10/01", "1980/05/30", df, Soil("SandyLoam"), Crop("Wheat", planting_date="10/01"), InitialWaterContent(value=["FC"]))
    m._initialize()
    seen = {}

    def gdd_stub(method, tupp, tbase, tmax, tmin):
        seen["gdd_tmax"] = tmax; seen["gdd_tmin"] = tmin
        return 1.0

    def stop(*a):
        raise _Stop()
    ok_all = True
    for k in probe_days:
        cs = m._clock_struct
        cs.time_step_counter = k
        cs.step_start_time = cs.time_span[k]; cs.step_end_time = cs.time_span[k + 1]
        d = pd.Timestamp(cs.time_span[k])
        try:
            with stubbed({"aquacrop.timestep.run_single_timestep": {"growing_degree_day": gdd_stub, "check_groundwater_table": stop}}):
                m._perform_timestep()
        except _Stop:
            pass
        ic = m._init_cond
        got = {"Precipitation": ic.precipitation, "MinTemp": ic.temp_min, "MaxTemp": ic.temp_max, "ReferenceET": ic.et0}
        for var, val in got.items():
            want = cells[(var, d)]
            same = isinstance(val, SF) and (val.e.get_id() == want.e.get_id())
            cond = (val == want) if isinstance(val, (SF, float, int, np.floating)) else False
            ctx.prove(f"C15:{var} used on a simulated day is the record of that date in the column of that name", cond)
        ctx.prove("C15:degree days are computed from that day's MaxTemp and MinTemp columns",
                  And(seen.get("gdd_tmax") == cells[("MaxTemp", d)], seen.get("gdd_tmin") == cells[("MinTemp", d)]) if isinstance(seen.get("gdd_tmax"), (SF, float, int, np.floating)) and isinstance(seen.get("gdd_tmin"), (SF, float, int, np.floating)) else False)
    ctx.reach("bound-by-name-and-date")
    ctx.count_steps(len(probe_days))


# ------------------------------------------------------------------------------------------------------------------ C14
def _c14_configs(tier):
    out = []
    cuts = [1, 2, 9, 70] if tier == "quick" else [1, 2, 5, 9, 40, 70, 110, 131]
    for method in ((0, 1) if tier == "quick" else (0, 1, 2, 4)):
        for t in cuts:
            out.append((f"future|Maize|method={method}|cut_day={t}", dict(kind="future", crop="Maize", method=method, t=t)))
    out.append(("future|Wheat-tunis|method=0|cut_day=30", dict(kind="future", crop="Wheat", method=0, t=30)))
    out.append(("future|Maize|start-40d-before-planting|cut_day=60", dict(kind="future", crop="Maize", method=0, t=60, lead=40)))
    for crop in (("Maize", "WheatGDD") if tier == "quick" else ("Maize", "WheatGDD", "Potato", "BarleyGDD")):
        out.append((f"outside-window|{crop}", dict(kind="outside", crop=crop, method=0)))
    out.append(("outside-window|Maize|file-row-labels", dict(kind="outside", crop="Maize", method=0, keep_index=True)))
    out.append(("end-extension|Maize|2-seasons", dict(kind="extend", crop="Maize", method=1)))
    return out


def _mk(crop, method, wdf, start, end, plant):
    irr = IrrigationManagement(irrigation_method=method, SMT=[70] * 4) if method == 1 else IrrigationManagement(irrigation_method=method)
    return AquaCropModel(start, end, wdf, Soil("SandyLoam"), Crop(crop, planting_date=plant), InitialWaterContent(value=["FC"]), irrigation_management=irr)


def _rows(m, upto=None):
    o = m._outputs
    out = []
    for tab in (o.water_flux, o.water_storage, o.crop_growth):
        a = tab.values if hasattr(tab, "values") else tab
        a = a[:upto] if upto is not None else a
        out += [float(x) for x in np.asarray(a, dtype=float).ravel()]
    return out


@harness("no_lookahead", modules=[], props=["C14", "C16"], configs=_c14_configs, goals=["future-weather-symbolic", "outside-window-symbolic"])
def h_lookahead(ctx, cfg):
    kind = cfg["kind"]
    if cfg["crop"].startswith("Wheat") or cfg["crop"].startswith("Barley"):
        wf, start, end, plant = "tunis_climate.txt", "1979/10/01", "1980/06/30", "10/01"
    else:
        wf, start, end, plant = "champion_climate.txt", "1982/05/01", "1982/10/30", "05/01"
        if cfg.get("lead"):
            start = (pd.Timestamp(start) - pd.Timedelta(days=cfg["lead"])).strftime("%Y/%m/%d")
    w = weather(wf)
    s_ts, e_ts = pd.Timestamp(start), pd.Timestamp(end)
    span = pd.date_range(s_ts, e_ts)
    if kind == "extend":
        end2 = "1983/10/30"
        w = w[(w.Date >= s_ts) & (w.Date <= pd.Timestamp(end2))].reset_index(drop=True)
        m1 = _mk(cfg["crop"], cfg["method"], w.copy(), start, end, plant)
        m1.run_model(till_termination=True)
        n1 = len(m1._outputs.water_flux)
        harvest_row = int(m1._outputs.final_stats["Harvest Date (Step)"].iloc[0]) + 1
        sym = {d for d in pd.date_range(e_ts + pd.Timedelta(days=1), pd.Timestamp(end2))}
        df, cells = _proxy_table(ctx, w, sym)
        names = [f"{c}@{d.date()}" for (c, d) in cells]

        def run2(alt=None):
            d2 = df.copy()
            if alt is not None or not ctx.symbolic:
                for (c, d), v in cells.items():
                    nm = f"{c}@{d.date()}"
                    d2.loc[d2.Date == d, c] = (alt or {}).get(nm, v)
            m2 = _mk(cfg["crop"], cfg["method"], d2, start, end2, plant)
            m2._initialize()
            m2.run_model(num_steps=harvest_row, initialize_model=False)
            return m2
        m0 = ctx.mark()
        ctx.count_steps(n1 + harvest_row)
        try:
            m2 = run2()
            rows2 = _rows(m2, harvest_row)
            suspected = False
        except (symx.Abort, TypeError, ValueError) as e:
            rows2 = []; suspected = True
        alts = [{n: (RANGES[n.split("@")[0]][0] + 0.37 * (RANGES[n.split("@")[0]][1] - RANGES[n.split("@")[0]][0])) for n in names}]
        ctx.prove_independent("C14:extending the end date leaves the completed season's rows unchanged (records after the old end are arbitrary)",
                              names, rows2, lambda alt: _rows(run2(alt), harvest_row), since=m0, alts=alts, suspected=suspected)
        if not suspected:
            r1 = _rows(m1, harvest_row)
            ctx.prove("C14:completed season identical in the short and the extended run", len(r1) == len(rows2) and all((a == b) or (a != a and b != b) for a, b in zip(r1, rows2)))
        return
    if kind == "future":
        t = cfg["t"]
        w = w[(w.Date >= s_ts) & (w.Date <= e_ts)].reset_index(drop=True)
        sym = {d for d in span[t:]}
        upto = t
    else:
        pad = 60
        w = w[(w.Date >= s_ts - pd.Timedelta(days=pad)) & (w.Date <= e_ts + pd.Timedelta(days=pad))]
        keep = w.index if cfg.get("keep_index") else None
        w = w.reset_index(drop=True)
        sym = {d for d in w.Date if d < s_ts or d > e_ts}
        upto = None
    df, cells = _proxy_table(ctx, w, sym)
    if kind == "outside" and keep is not None:
        df.index = keep                      # the row labels of the longer file the table was cut from
    names = [f"{c}@{d.date()}" for (c, d) in cells]
    ctx.reach("future-weather-symbolic" if kind == "future" else "outside-window-symbolic")

    def run(alt=None):
        d2 = df
        if alt is not None:
            d2 = df.copy()
            for (c, d), v in cells.items():
                d2.loc[d2.Date == d, c] = alt.get(f"{c}@{d.date()}", v)
        m = _mk(cfg["crop"], cfg["method"], d2, start, end, plant)
        m._initialize()
        if upto is not None:
            m.run_model(num_steps=upto, initialize_model=False)
        else:
            m.run_model(till_termination=True, initialize_model=False)
        return m
    m0 = ctx.mark()
    ctx.count_steps(upto if upto is not None else len(span))
    try:
        m = run()
        rows = _rows(m, upto)
        suspected = False
    except (symx.Abort, TypeError, ValueError, ZeroDivisionError) as e:
        rows = []; suspected = True
        ctx.note("touched", f"{type(e).__name__}: {e}")
    alts = [{n: (RANGES[n.split("@")[0]][0] + f * (RANGES[n.split("@")[0]][1] - RANGES[n.split("@")[0]][0])) for n in names} for f in (0.0, 0.37, 0.9)]
    label = ("C14:outputs before the cut day do not depend on weather from the cut day on" if kind == "future"
             else "C14:weather records outside the simulation window have no effect")
    ctx.prove_independent(label, names, rows, lambda alt: _rows(run(alt), upto), since=m0, alts=alts, suspected=suspected)
