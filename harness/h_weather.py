"""Pipeline harnesses (DESIGN.md 4.4): the real AquaCropModel._initialize() and the real day prologue run on a weather table whose
numeric cells are proxies named after their column and date.
C15: the value bound to each weather variable on day d is, for all values, the proxy named (variable, d).
C14: records outside the window / after a cut day are proxies that must never reach an output or a branch."""
import itertools
import types
import numpy as np
import pandas as pd
import symx
from symx import harness, And, Or, Not, Implies, stubbed, SF
from .init_model import weather

from aquacrop import AquaCropModel, Soil, Crop, InitialWaterContent, IrrigationManagement

COLS = ["MinTemp", "MaxTemp", "Precipitation", "ReferenceET", "Date"]
NUM = COLS[:4]
RANGES = {"MinTemp": (-30, 40), "MaxTemp": (-30, 60), "Precipitation": (0, 300), "ReferenceET": (0.1, 20)}


class _Stop(BaseException):
    pass


def _proxy_table(ctx, base, dates_symbolic):
    """object-dtype copy of base; cells of rows whose Date is in dates_symbolic become named proxies"""
    df = base.astype({c: object for c in NUM}).reset_index(drop=True)
    cells = {}
    for i in range(len(df)):
        d = df.at[i, "Date"]
        if d in dates_symbolic:
            for c in NUM:
                lo, hi = RANGES[c]
                v = ctx.real(f"{c}@{pd.Timestamp(d).date()}", lo, hi)
                df.at[i, c] = v
                cells[(c, pd.Timestamp(d))] = v
    return df, cells


def _c15_configs(tier):
    out = []
    perms = list(itertools.permutations(COLS))
    if tier == "quick":
        perms = perms[::11]
    for k, perm in enumerate(perms):
        out.append((f"order={','.join(perm)}", dict(order=list(perm), extra=None, index="default", pad=0)))
    out.append(("extra-column-first", dict(order=COLS, extra="first", index="default", pad=0)))
    out.append(("extra-column-middle", dict(order=COLS, extra="middle", index="default", pad=0)))
    out.append(("extra-column-last+offset-index", dict(order=COLS, extra="last", index="offset", pad=0)))
    out.append(("leading+trailing-rows,shuffled-index", dict(order=COLS, extra=None, index="shuffled", pad=40)))
    out.append(("leading-rows,date-index", dict(order=COLS, extra=None, index="date", pad=25)))
    out.append(("reordered+extra+padding+offset-index", dict(order=["Date", "ReferenceET", "MaxTemp", "MinTemp", "Precipitation"], extra="middle", index="offset", pad=17)))
    return out


@harness("weather_binding", modules=[], props=["C15", "C16"], configs=_c15_configs, goals=["bound-by-name-and-date"])
def h_binding(ctx, cfg):
    start, end = pd.Timestamp("1979-10-01"), pd.Timestamp("1980-05-30")
    w = weather("tunis_climate.txt")
    pad = cfg["pad"]
    w = w[(w.Date >= start - pd.Timedelta(days=pad)) & (w.Date <= end + pd.Timedelta(days=pad))].reset_index(drop=True)
    probe_days = [0, 1, 7, 30]
    span = pd.date_range(start, end)
    sym_dates = {span[k] for k in probe_days}
    df, cells = _proxy_table(ctx, w, sym_dates)
    if cfg["extra"]:
        order = list(cfg["order"])
        pos = {"first": 0, "middle": 2, "last": len(order)}[cfg["extra"]]
        order.insert(pos, "WindSpeed")
        df["WindSpeed"] = 3.3
        df = df[order]
    else:
        df = df[list(cfg["order"])]
    if cfg["index"] == "offset":
        df.index = range(1000, 1000 + len(df))
    elif cfg["index"] == "shuffled":
        rs = np.random.RandomState(5)
        df.index = rs.permutation(len(df))
    elif cfg["index"] == "date":
        df.index = pd.DatetimeIndex(df["Date"].values)
    m = AquaCropModel("1979/10/01", "1980/05/30", df, Soil("SandyLoam"), Crop("Wheat", planting_date="10/01"), InitialWaterContent(value=["FC"]))
    m._initialize()
    seen = {}

    def gdd_stub(method, tupp, tbase, tmax, tmin):
        seen["gdd_tmax"] = tmax; seen["gdd_tmin"] = tmin
        return 1.0

    def stop(*a):
        raise _Stop()
    ok_all = True
    for k in probe_days:
        cs = m._clock_struct
        cs.time_step_counter = k
        cs.step_start_time = cs.time_span[k]; cs.step_end_time = cs.time_span[k + 1]
        d = pd.Timestamp(cs.time_span[k])
        try:
            with stubbed({"aquacrop.timestep.run_single_timestep": {"growing_degree_day": gdd_stub, "check_groundwater_table": stop}}):
                m._perform_timestep()
        except _Stop:
            pass
        ic = m._init_cond
        got = {"Precipitation": ic.precipitation, "MinTemp": ic.temp_min, "MaxTemp": ic.temp_max, "ReferenceET": ic.et0}
        for var, val in got.items():
            want = cells[(var, d)]
            same = isinstance(val, SF) and (val.e.get_id() == want.e.get_id())
            cond = (val == want) if isinstance(val, SF) else False
            ctx.prove(f"C15:{var} used on a simulated day is the record of that date in the column of that name", cond)
        ctx.prove("C15:degree days are computed from that day's MaxTemp and MinTemp columns",
                  And(seen.get("gdd_tmax") == cells[("MaxTemp", d)], seen.get("gdd_tmin") == cells[("MinTemp", d)]) if isinstance(seen.get("gdd_tmax"), SF) and isinstance(seen.get("gdd_tmin"), SF) else False)
    ctx.reach("bound-by-name-and-date")
