"""Shared pieces for harnesses: real soil profiles (built by the real Soil / create_soil_profile code),
real crops, state construction within the invariant INV, storage sums."""
import copy
import types
import warnings

import numpy as np

warnings.filterwarnings("ignore")

from aquacrop.entities.soil import Soil
from aquacrop.entities.crop import Crop
from aquacrop.entities.paramStruct import ParamStruct
from aquacrop.entities.initParamVariables import InitialCondition
from aquacrop.initialize.create_soil_profile import create_soil_profile

import symx
from symx import SArr, SF, And, Or, Not, Implies

BUILTIN_SOILS = ["Clay", "ClayLoam", "Loam", "LoamySand", "Sand", "SandyClay", "SandyClayLoam", "SandyLoam",
                 "Silt", "SiltClayLoam", "SiltLoam", "SiltClay", "Paddy", "ac_TunisLocal", "Default"]

_SOILPAR = {}


def soil_params(name):
    """(th_wp, th_fc, th_s, Ksat, penetrability) per layer of a built-in soil + cn, rew  -- read from the real class"""
    if name not in _SOILPAR:
        s = Soil(name)
        s.fill_nan()
        lay = []
        for l in sorted(s.profile.Layer.unique()):
            r = s.profile[s.profile.Layer == l].iloc[0]
            lay.append((float(r.th_wp), float(r.th_fc), float(r.th_s), float(r.Ksat), float(r.penetrability)))
        _SOILPAR[name] = (lay, float(s.cn), float(s.rew))
    return _SOILPAR[name]


# extra layer definitions used for layered test profiles (wp, fc, s, Ksat, pen)
EXTRA_LAYERS = {
    "PaddyTop": (0.32, 0.50, 0.54, 15.0, 100.0),
    "PaddyPan": (0.39, 0.54, 0.55, 2.0, 100.0),
    "TightClay": (0.39, 0.54, 0.55, 0.5, 50.0),
    "Drainy": (0.05, 0.10, 0.50, 30.0, 100.0),      # drains faster than its conductivity lets water out: the Ksat limit of drainage binds
}


def layer_def(name):
    if name in EXTRA_LAYERS:
        return EXTRA_LAYERS[name]
    lay, cn, rew = soil_params(name)
    return lay[0]


_PROF_CACHE = {}


def build_profile(layers, dzs, water_table=0, **soil_kw):
    """layers: list of layer names, one per compartment (consecutive equal names = one layer).
    Built through the real Soil('custom').add_layer / fill_nan / add_capillary_rise_params / create_soil_profile."""
    key = (tuple(layers), tuple(dzs), water_table, tuple(sorted(soil_kw.items())))
    if key in _PROF_CACHE:
        return _PROF_CACHE[key]
    assert len(layers) == len(dzs)
    soil = Soil("custom", dz=list(dzs), **soil_kw)
    groups = []
    for l, dz in zip(layers, dzs):
        if groups and groups[-1][0] == l:
            groups[-1][1] += dz
        else:
            groups.append([l, dz])
    for l, thick in groups:
        wp, fc, s, ks, pen = layer_def(l)
        soil.add_layer(round(thick, 2), wp, fc, s, ks, pen)
    soil.fill_nan()
    cn, rew = 61.0, 9.0
    if layers[0] in BUILTIN_SOILS:
        _, cn, rew = soil_params(layers[0])
    soil.cn = soil_kw.get("cn", cn)
    soil.rew = soil_kw.get("rew", rew)
    if water_table:
        soil.add_capillary_rise_params()
    ps = ParamStruct()
    ps.Soil = soil
    ps.water_table = water_table
    # th_fc_Adj column is added by read_model_initial_conditions in a real run
    soil.profile["th_fc_Adj"] = soil.profile["th_fc"]
    ps = create_soil_profile(ps)
    prof = ps.Soil.Profile
    for a in ("dz", "dzsum", "zBot", "z_top", "zMid", "th_wp", "th_fc", "th_s", "Ksat", "Penetrability", "th_dry", "tau",
              "th_fc_Adj", "aCR", "bCR"):
        arr = np.array(getattr(prof, a), dtype=float)   # writable copies (pandas 3 hands out read-only views)
        setattr(prof, a, arr)
    _PROF_CACHE[key] = (soil, prof)
    return soil, prof


PROF_ARRAYS = ("dz", "dzsum", "zBot", "z_top", "zMid", "th_wp", "th_fc", "th_s", "Ksat", "Penetrability", "th_dry", "tau",
               "th_fc_Adj", "aCR", "bCR")


def prof_for(ctx, prof):
    """profile object for this run: SArr-backed arrays in symbolic mode, fresh numpy copies in concrete mode"""
    p = types.SimpleNamespace()
    for a in PROF_ARRAYS:
        setattr(p, a, ctx.const_arr([float(x) for x in getattr(prof, a)]))
    p.Comp = np.array(prof.Comp)
    p.Layer = np.array(prof.Layer)
    return p


def prof_snapshot(p):
    return {a: [x for x in getattr(p, a)] for a in PROF_ARRAYS}


def prove_prof_unchanged(ctx, p, snap, tag="frame"):
    """C12 frame clause: every profile array equals its snapshot"""
    for a in PROF_ARRAYS:
        cur = list(getattr(p, a))
        old = snap[a]
        if len(cur) != len(old):
            ctx.prove(f"{tag}:prof.{a} length", False)
            continue
        conds = [c == o for c, o in zip(cur, old)]
        ctx.prove(f"{tag}:prof.{a} unchanged", And(*conds))


def storage(prof, th):
    """profile storage in mm; coefficients are concrete"""
    s = 0
    for i in range(len(th)):
        s = s + th[i] * (float(prof.dz[i]) * 1000)
    return s


def approx(a, b, tol=1e-9):
    d = a - b
    return And(d <= tol, d >= -tol)


_CROP_CACHE = {}


def real_crop(name, planting="05/01", **kw):
    """a real Crop entity with its calendar (calendar-day) computed by the real compute_crop_calendar path is not needed
    for leaf harnesses; they use the parameter values only. Derived fields that the real initialisation adds are filled
    by harness.init_model.season_crop when needed."""
    key = (name, planting, tuple(sorted(kw.items())))
    if key not in _CROP_CACHE:
        _CROP_CACHE[key] = Crop(name, planting, **kw)
    return copy.deepcopy(_CROP_CACHE[key])


SOIL_DEFAULTS = dict(evap_z_min=0.15, evap_z_max=0.30, kex=1.1, fwcc=50, f_wrel_exp=0.4, f_evap=4, fshape_cr=16,
                     z_cn=0.3, z_germ=0.3, z_top=0.1, adj_cn=1)

# quick / thorough profile catalogues ------------------------------------------------------------------
UNIFORM_QUICK = ["SandyLoam", "Clay", "Sand", "Loam", "Paddy", "SiltClay"]
LAYERED = [("Sand", "Clay"), ("Clay", "Sand"), ("PaddyTop", "PaddyPan"), ("SandyLoam", "TightClay")]


def profile_catalogue(tier, n=2, heavy=False):
    """heavy: harnesses with thousands of paths per configuration use a smaller quick catalogue"""
    out = []
    if heavy and tier == "quick":
        return [(["SandyLoam"] * n, [0.1] * n), (["Paddy"] * n, [0.1] * n), (["PaddyTop"] + ["PaddyPan"] * (n - 1), [0.1] * n),
                (["SandyLoam"] + ["TightClay"] * (n - 1), [0.1] * n), (["Clay"] + ["Sand"] * (n - 1), [0.1] * n)]
    soils = UNIFORM_QUICK if tier == "quick" else BUILTIN_SOILS
    for s in soils:
        out.append(([s] * n, [0.1] * n))
    lay = LAYERED
    for a, b in lay:
        out.append(([a] + [b] * (n - 1), [0.1] * n))
    if tier != "quick":
        out.append((["SandyLoam"] * n, [0.05] + [0.15] * (n - 1)))
        out.append((["Clay"] * n, [0.2] * n))
    return out


# ------------------------------------------------------------------------------------------------ contract stubs
def stub_root_zone_water(prof, z_root, th, z_top, zmin, aer):
    """contract of root_zone_water (proved by harness 'root_zone_water'): fresh outputs constrained by its ensures"""
    ctx = symx.active()
    f = ctx.fresh_real
    taw_rz = f("TAW_Rz", 1e-3, 1e4)
    taw_zt = f("TAW_Zt", 1e-3, 1e4)
    dr_rz = f("Dr_Rz", -1e4, 1e4)
    dr_zt = f("Dr_Zt", -1e4, 1e4)
    ctx.assume(dr_rz <= taw_rz)
    ctx.assume(dr_zt <= taw_zt)
    wr = f("Wr", 0, 1e4)
    th_s = f("thRZ_S", 0.01, 1)
    th_fc = f("thRZ_FC", 0.01, 1)
    th_wp = f("thRZ_WP", 0.0, 1)
    th_dry = f("thRZ_Dry", 0.0, 1)
    th_aer = f("thRZ_Aer", -1, 1)
    th_act = f("thRZ_Act", 0.0, 1)
    ctx.assume(And(th_wp < th_fc, th_fc <= th_s, th_dry <= th_wp, th_aer < th_s, th_act <= th_s + 1e-3))
    return (wr, dr_zt, dr_rz, taw_zt, taw_rz, th_act, th_s, th_fc, th_wp, th_dry, th_aer)
