"""C08 season independence (pipeline harness): the state left by an arbitrary earlier season is havocked (every scalar of the real
InitialCondition becomes a fresh symbol), the real update_time/reset_initial_conditions starts the next season, and the first day of
that season is executed by the REAL solution_single_time_step with the real processes on the real 12-compartment profile.
If the reset is complete, nothing symbolic is ever read and execution stays concrete; any state that leaks reaches an output."""
import copy
import numpy as np
import pandas as pd
import symx
from symx import harness, And, Or, Not, Implies, SF
from .init_model import weather

from aquacrop import AquaCropModel, Soil, Crop, InitialWaterContent, IrrigationManagement, FieldMngt, GroundWater


def _configs(tier):
    out = []
    methods = [0, 1, 2, 4] if tier == "quick" else [0, 1, 2, 3, 4, 5]
    for method in methods:
        for iwc in ("FC", "WP"):
            if tier == "quick" and iwc == "WP" and method not in (4, 0):
                continue
            out.append((f"Maize|method={method}|iwc={iwc}", dict(crop="Maize", method=method, iwc=iwc, bunds=False)))
    out.append(("Maize|method=5|bunds", dict(crop="Maize", method=5, iwc="FC", bunds=True)))
    out.append(("Maize|method=0|iwc=FC|water-table", dict(crop="Maize", method=0, iwc="FC", bunds=False, gw=1.5)))
    if tier != "quick":
        out.append(("Wheat|method=1|iwc=FC", dict(crop="Wheat", method=1, iwc="FC", bunds=False)))
        for c in ("Potato", "Tomato", "Cotton", "Sorghum"):
            for method in (0, 2, 4):
                out.append((f"{c}|method={method}|iwc=WP", dict(crop=c, method=method, iwc="WP", bunds=False)))
        out.append(("Maize|method=1|bunds|water-table", dict(crop="Maize", method=1, iwc="FC", bunds=True, gw=1.2)))
    return out


def _model(cfg, start, end):
    m = cfg["method"]
    if m == 1:
        irr = IrrigationManagement(irrigation_method=1, SMT=[60] * 4)
    elif m == 2:
        irr = IrrigationManagement(irrigation_method=2, IrrInterval=7)
    elif m == 3:
        sched = pd.DataFrame({"Date": pd.date_range("1982/05/01", "1984/10/30", freq="10D"), "Depth": 20.0})
        irr = IrrigationManagement(irrigation_method=3, Schedule=sched)
    elif m == 4:
        irr = IrrigationManagement(irrigation_method=4, NetIrrSMT=70)
    elif m == 5:
        irr = IrrigationManagement(irrigation_method=5, depth=3.0)
    else:
        irr = IrrigationManagement(irrigation_method=0)
    fm = FieldMngt(bunds=True, z_bund=0.1, bund_water=20) if cfg["bunds"] else FieldMngt()
    wf, plant = ("tunis_climate.txt", "10/01") if cfg["crop"] == "Wheat" else ("champion_climate.txt", "05/01")
    gw = GroundWater(water_table="Y", dates=[start], values=[cfg["gw"]]) if cfg.get("gw") else None
    return AquaCropModel(start, end, weather(wf), Soil("ClayLoam" if cfg.get("gw") else "SandyLoam"), Crop(cfg["crop"], planting_date=plant),
                         InitialWaterContent(value=[cfg["iwc"]]), irrigation_management=irr, field_management=fm, groundwater=gw)


SKIP = {"th", "thini", "th_fc_Adj", "aer_days_comp", "time_step_counter"}


def _day_rows(m, row):
    o = m._outputs
    out = []
    for tab in (o.water_flux, o.water_storage, o.crop_growth):
        a = tab.values if hasattr(tab, "values") else tab
        out += [x for x in a[row]]
    return out


ALL_MODS = ["aquacrop.timestep.run_single_timestep", "aquacrop.timestep.reset_initial_conditions"] + [f"aquacrop.solution.{m}" for m in (
    "check_groundwater_table root_development pre_irrigation drainage rainfall_partition irrigation infiltration capillary_rise germination "
    "growth_stage canopy_cover soil_evaporation transpiration groundwater_inflow HIref_current_day biomass_accumulation harvest_index "
    "root_zone_water water_stress aeration_stress temperature_stress growing_degree_day evap_layer_water_content cc_development "
    "cc_required_time adjust_CCx update_CCx_CDC HIadj_pre_anthesis HIadj_post_anthesis HIadj_pollination").split()]


@harness("season_reset", modules=ALL_MODS, props=["C08", "C01", "C06", "C13", "C16"], configs=_configs, goals=["second-season-started"],
         max_decisions=0)      # any branch on left-over state is already a dependence: end the symbolic run there and let the replay decide
def h_reset(ctx, cfg):
    if cfg["crop"] == "Wheat":
        s1, e2, s2 = "1979/10/01", "1981/06/30", "1980/10/01"
    else:
        s1, e2, s2 = "1982/05/01", "1983/10/30", "1983/05/01"
    m = _model(cfg, s1, e2)
    m._initialize()
    th_cfg = np.array(m._init_cond.thini, dtype=float).copy()          # configured initial water content
    alias0 = m._init_cond.th is m._init_cond.thini
    while m._clock_struct.season_counter == 0 and not m._clock_struct.model_is_finished:    # real first season (concrete)
        prev = m._init_cond
        m.run_model(num_steps=1, initialize_model=False)
        if m._init_cond.harvest_flag and m._clock_struct.season_counter == 0:
            break
    ctx.reach("second-season-started") if m._clock_struct.season_counter == 1 else None
    ctx.count_steps(int(m._clock_struct.time_step_counter) + 2)      # real day-steps: first season, its reference day and the havocked first day of season 2
    ic = m._init_cond
    ctx.prove("C08,C01:the configured initial water content survives the first season unchanged",
              bool(np.array_equal(np.array(ic.thini, dtype=float), th_cfg)))
    # fresh single-season model started on the second planting date: the reference
    ref = _model(cfg, s2, e2)
    ref._initialize()
    ref.run_model(num_steps=1, initialize_model=False)
    ref_rows = _day_rows(ref, 0)
    # the season reset has run inside update_time; now havoc what an arbitrary earlier season could have left behind and redo it
    from aquacrop.timestep.reset_initial_conditions import reset_initial_conditions
    names = []
    ic2 = ic
    hav = {}
    for k, v in list(vars(ic2).items()):
        if k in SKIP or isinstance(v, (bool, np.bool_, str)) or v is None or isinstance(v, np.ndarray):
            continue
        if isinstance(v, (int, float, np.integer, np.floating)):
            hav[k] = ctx.real(f"prev_season.{k}", -1e4, 1e4)
            names.append(f"prev_season.{k}")

    def first_day(values):
        mm = m
        st = copy.copy(ic)
        st.th = np.array(ic.th, dtype=float).copy(); st.thini = np.array(ic.thini, dtype=float).copy()
        st.th_fc_Adj = np.array(ic.th_fc_Adj, dtype=float).copy(); st.aer_days_comp = np.array(ic.aer_days_comp, dtype=float).copy()
        for k, v in values.items():
            setattr(st, k, v)
        ps = mm._param_struct
        st, ps = reset_initial_conditions(mm._clock_struct, st, ps, mm._weather, mm.crop)
        counters.append((st.irr_cum, st.irr_net_cum, st.dap, st.gdd_cum))
        saved = (mm._init_cond, copy.copy(mm._clock_struct.__dict__))
        mm._init_cond = st
        out_backup = [np.array(t, copy=True) for t in (mm._outputs.water_flux, mm._outputs.water_storage, mm._outputs.crop_growth)]
        row = mm._clock_struct.time_step_counter
        try:
            mm.run_model(num_steps=1, initialize_model=False)
            rows = _day_rows(mm, row)
            # ... and the state handed to day 2 (a leak that shows only later in the season is visible here)
            after = mm._init_cond
            for k2 in sorted(vars(after)):
                v2 = getattr(after, k2)
                if isinstance(v2, (bool, np.bool_)):
                    rows.append(float(v2))
                elif isinstance(v2, (int, float, np.integer, np.floating, SF)):
                    rows.append(v2)
                elif isinstance(v2, np.ndarray) and v2.dtype != object:
                    rows += [float(x) for x in v2.ravel()]
        finally:
            mm._init_cond = saved[0]
            mm._clock_struct.__dict__.update(saved[1])
            mm._outputs.water_flux, mm._outputs.water_storage, mm._outputs.crop_growth = out_backup
        return rows
    counters = []
    m0 = ctx.mark()
    try:
        rows = first_day(hav)
        suspected = False
    except (symx.Abort, symx.PathEnd, TypeError, ValueError, ZeroDivisionError) as e:
        rows = []; suspected = True
        ctx.note("touched", f"{type(e).__name__}: {e}")
        import sys, traceback
        sys.stderr.write(f"[season_reset] symbolic state touched: {type(e).__name__}: {e} @ {[(f.filename.split("/")[-1], f.lineno) for f in traceback.extract_tb(e.__traceback__)[-4:]]}\n")
    if ctx.symbolic and not suspected:
        leaks = [n for n in names if ctx.depends_on([n], rows, m0)]
        ctx.note("leaks", leaks)
        if leaks:
            import sys
            sys.stderr.write(f"[season_reset] state not reset and read on day 1: {leaks}\n")
    if counters:
        c0 = counters[0]
        ctx.prove("C06,C08,C13:seasonal irrigation totals, days after planting and degree days restart at zero when a season starts",
                  And(*[(x == 0) for x in c0]))
    alts = [{n: 3.7 for n in names}, {n: 0.0 for n in names}]
    ctx.prove_independent("C08:the first day of a season does not depend on any state left by the previous season", names,
                          [r for r in rows], lambda alt: first_day({k: alt.get(f"prev_season.{k}", 0.0) for k in hav}), since=m0, alts=alts, suspected=suspected)
    if not suspected and rows:
        same = len(rows) == len(ref_rows) and all((isinstance(a, SF) is False) and (float(a) == float(b) or (a != a and b != b) or i in (0, 1)) for i, (a, b) in enumerate(zip(rows, ref_rows)) if i % 16 not in (0, 1) or True)
        # columns time_step_counter / season_counter differ by construction (indices 0,1 of each table)
        def cmp(a, b, i):
            if isinstance(a, SF):
                return False
            return float(a) == float(b) or (a != a and b != b)
        n_flux, n_stor = 16, len(m._outputs.water_storage[0])
        idx_skip = {0, 1, n_flux, n_flux + n_stor, n_flux + n_stor + 1}
        ok = all(cmp(a, b, i) for i, (a, b) in enumerate(zip(rows[:len(ref_rows)], ref_rows)) if i not in idx_skip)
        ctx.prove("C08:the first day of season 2 equals the first day of a single-season run started on that planting date", ok)
