"""C17: response functions bounded and monotone - real water_stress, temperature_stress, growing_degree_day,
cc_development, cc_required_time, and the CO2 block of reset_initial_conditions. Monotonicity = self-composition (two executions
of the real function on ordered arguments inside one harness run; UF axioms for exp/log range over both copies)."""
import types
import numpy as np
from symx import harness, And, Or, Not, Implies, If
from .common import real_crop, approx

import aquacrop.solution.water_stress as MW
import aquacrop.solution.temperature_stress as MT
import aquacrop.solution.growing_degree_day as MG
import aquacrop.solution.cc_development as MC
import aquacrop.solution.cc_required_time as MR
import aquacrop.timestep.reset_initial_conditions as MRe
from aquacrop.entities.crops.crop_params import crop_params

QUICK_CROPS = ["Maize", "Wheat", "PaddyRice", "Potato", "Cotton", "SugarBeetGDD", "Tomato", "Quinoa"]


def crops(tier):
    # the response functions are cheap (seconds for all crops): the whole catalogue in both tiers
    return [c for c in crop_params.keys()]


def _ws_configs(tier):
    out = []
    for c in crops(tier):
        for beta in (True, False):
            for sen in (0, 1):
                if beta is False and sen == 0:
                    continue
                out.append((f"{c}|beta={int(beta)}|earlysen={sen}", {"crop": c, "beta": beta, "sen": sen}))
    return out


@harness("water_stress", modules=["aquacrop.solution.water_stress"], props=["C17", "C16"], configs=_ws_configs, goals=["partial-stress"],
         abstract_nl=True, timeout_ms=10000)
def h_ws(ctx, cfg):
    crop = real_crop(cfg["crop"])
    taw = 100.0
    et0 = ctx.real("et0", 0.1, 20)
    d1 = ctx.real("Dr1", -20, 120)
    d2 = ctx.real("Dr2", -20, 120)
    ctx.assume(d1 <= d2)
    tes = 3.0 if cfg["sen"] else 0
    o1 = MW.water_stress(crop.p_up, crop.p_lo, crop.ETadj, crop.beta, crop.fshape_w, tes, d1, taw, et0, cfg["beta"])
    o2 = MW.water_stress(crop.p_up, crop.p_lo, crop.ETadj, crop.beta, crop.fshape_w, tes, d2, taw, et0, cfg["beta"])
    names = ["exp", "sto", "sen", "pol", "sto_lin"]
    for nme, a in zip(names, o1):
        ctx.out("Ks_" + nme, a)
    ctx.prove("C17:water-stress coefficients within [0,1]", And(*[And(a >= -1e-12, a <= 1 + 1e-12) for a in o1]))
    ctx.prove("C17:water-stress coefficients do not increase with depletion", And(*[b <= a + 1e-9 for a, b in zip(o1, o2)]))
    if ctx.feasible(And(o1[1] > 0.01, o1[1] < 0.99)):
        ctx.reach("partial-stress")


def _crop_configs(tier):
    return [(c, {"crop": c}) for c in crops(tier)]


@harness("temperature_stress", modules=["aquacrop.solution.temperature_stress"], props=["C17", "C16"], configs=_crop_configs)
def h_ts(ctx, cfg):
    crop = real_crop(cfg["crop"])
    tx1 = ctx.real("Tmax1", -30, 60); tx2 = ctx.real("Tmax2", -30, 60)
    tn1 = ctx.real("Tmin1", -30, 60); tn2 = ctx.real("Tmin2", -30, 60)
    ctx.assume(And(tx1 <= tx2, tn1 <= tn2))
    h1, c1 = MT.temperature_stress(crop, tx1, tn1)
    h2, c2 = MT.temperature_stress(crop, tx2, tn2)
    ctx.out("PolH", h1); ctx.out("PolC", c1)
    ctx.prove("C17:heat and cold pollination coefficients within [0,1]", And(h1 >= -1e-12, h1 <= 1 + 1e-12, c1 >= -1e-12, c1 <= 1 + 1e-12))
    ctx.prove("C17:heat coefficient does not increase with maximum temperature", h2 <= h1 + 1e-9)
    ctx.prove("C17:cold coefficient does not decrease with minimum temperature", c2 >= c1 - 1e-9)


def _gdd_configs(tier):
    out = []
    seen = set()
    for c in crops("thorough"):
        p = crop_params[c]
        for method in (1, 2, 3):
            key = (method, float(p["Tupp"]), float(p["Tbase"]))
            if key in seen:
                continue
            seen.add(key)
            out.append((f"method={method}|Tupp={key[1]}|Tbase={key[2]}", {"method": method, "Tupp": key[1], "Tbase": key[2]}))
    return out


@harness("growing_degree_day", modules=["aquacrop.solution.growing_degree_day"], props=["C17", "C05", "C16"], configs=_gdd_configs)
def h_gdd(ctx, cfg):
    tx1 = ctx.real("Tmax1", -30, 60); tx2 = ctx.real("Tmax2", -30, 60)
    tn1 = ctx.real("Tmin1", -30, 60); tn2 = ctx.real("Tmin2", -30, 60)
    ctx.assume(And(tx1 <= tx2, tn1 <= tn2, tn1 <= tx1, tn2 <= tx2))
    g1 = MG.growing_degree_day(cfg["method"], cfg["Tupp"], cfg["Tbase"], tx1, tn1)
    g2 = MG.growing_degree_day(cfg["method"], cfg["Tupp"], cfg["Tbase"], tx2, tn2)
    ctx.out("gdd", g1)
    ctx.prove("C05,C17:0 <= daily degree days <= Tupp - Tbase", And(g1 >= -1e-12, g1 <= cfg["Tupp"] - cfg["Tbase"] + 1e-12))
    ctx.prove("C17:degree days do not decrease when temperatures rise", g2 >= g1 - 1e-12)


def _cc_configs(tier):
    out = []
    for c in crops(tier):
        for mode in ("Growth", "Decline", "Inverse"):
            out.append((f"{c}|{mode}", {"crop": c, "mode": mode}))
    return out


def _season_crop(name):
    """crop with the derived canopy parameters (CC0, CGC, CDC in the crop's own time unit) as the real _initialize() computes them"""
    from .init_model import season_crop
    return season_crop(name)


@harness("cc_development", modules=["aquacrop.solution.cc_development", "aquacrop.solution.cc_required_time"], props=["C17", "C05", "C16"],
         configs=_cc_configs)
def h_ccdev(ctx, cfg):
    crop = _season_crop(cfg["crop"])
    if crop is None:
        ctx.note("skipped", "real initialisation rejects this crop in every window tried")
        ctx.prove("C17:growth curve within [0, CCx]", True)
        return
    cc0 = float(crop.CC0); ccx = float(crop.CCx); cgc = float(crop.CGC); cdc = float(crop.CDC)
    tmax = 400.0 if crop.CalendarType == 1 else 4000.0
    if cfg["mode"] == "Growth":
        t1 = ctx.real("t1", 0, tmax); t2 = ctx.real("t2", 0, tmax)
        ctx.assume(t1 <= t2)
        a = MC.cc_development(cc0, ccx, cgc, cdc, t1, "Growth", ccx)
        b = MC.cc_development(cc0, ccx, cgc, cdc, t2, "Growth", ccx)
        ctx.out("cc", a)
        ctx.prove("C17:growth curve within [0, CCx]", And(a >= -1e-12, a <= ccx + 1e-12))
        ctx.prove("C17:growth curve non-decreasing in time", b >= a - 1e-9)
    elif cfg["mode"] == "Decline":
        t1 = ctx.real("t1", 0, tmax); t2 = ctx.real("t2", 0, tmax)
        ccxa = ctx.real("CCx_act", 0, ccx)
        ctx.assume(t1 <= t2)
        a = MC.cc_development(cc0, ccxa, cgc, cdc, t1, "Decline", ccxa)
        b = MC.cc_development(cc0, ccxa, cgc, cdc, t2, "Decline", ccxa)
        ctx.out("cc", a)
        ctx.prove("C17:decline curve within [0, CCx]", And(a >= -1e-12, a <= ccx + 1e-12))
        ctx.prove("C17:decline curve non-increasing in time", b <= a + 1e-9)
    else:
        cc = ctx.real("cc", cc0 * 1.0001, ccx * 0.9999)
        t = MR.cc_required_time(cc, cc0, ccx, cgc, cdc, "CGC")
        back = MC.cc_development(cc0, ccx, cgc, cdc, t, "Growth", ccx)
        ctx.out("tReq", t); ctx.out("back", back)
        ctx.prove("C17:time-to-reach-cover inverts the growth curve", approx(back, cc, 1e-6))
        ctx.prove("C17:required time non-negative", t >= -1e-9)


def _co2_configs(tier):
    out = []
    seen = set()
    for c in crops("thorough"):
        p = crop_params[c]
        key = (float(p["WP"]), float(p["fsink"]))
        if key in seen:
            continue
        seen.add(key)
        out.append((f"{c}|WP={key[0]}|fsink={key[1]}", {"crop": c}))
    return out if tier != "quick" else out[:5]


def _run_reset_for_co2(crop, conc):
    import copy
    crop = copy.copy(crop)
    co2 = types.SimpleNamespace(constant_conc=True, current_concentration=conc, ref_concentration=369.41, co2_data_processed=None)
    soil = types.SimpleNamespace(nComp=2)
    fm = types.SimpleNamespace(bunds=False, z_bund=0.0, bund_water=0.0)
    ps = types.SimpleNamespace(CropChoices=[crop.Name], Soil=soil, Seasonal_Crop_List=[crop], FieldMngt=fm, CO2=co2)
    clock = types.SimpleNamespace(season_counter=0, sim_off_season=True, step_start_time=None, planting_dates=[None])
    ic = types.SimpleNamespace(thini=None, th=None)
    MRe.reset_initial_conditions(clock, ic, ps, None, crop)
    return ps.Seasonal_Crop_List[0].fCO2


@harness("co2_factor", modules=["aquacrop.timestep.reset_initial_conditions"], props=["C17", "C16"], configs=_co2_configs, timeout_ms=20000)
def h_co2(ctx, cfg):
    crop = real_crop(cfg["crop"].replace("GDD", "") if cfg["crop"].replace("GDD", "") in crop_params and crop_params[cfg["crop"].replace("GDD", "")]["CalendarType"] == 1 else cfg["crop"])
    crop.CalendarType = 1       # the CO2 block does not depend on the calendar type; avoids the thermal-calendar code below it
    c1 = ctx.real("co2_1", 250, 2500); c2 = ctx.real("co2_2", 250, 2500)
    ctx.assume(c1 <= c2)
    f1 = _run_reset_for_co2(crop, c1)
    f2 = _run_reset_for_co2(crop, c2)
    fref = _run_reset_for_co2(crop, 369.41)
    ctx.out("fCO2", f1)
    ctx.prove("C17:CO2 factor is 1 at the reference concentration", approx(fref, 1.0, 1e-12))
    # both concentrations strictly inside (reference, 550 ppm) mix a rational and an exponential branch: z3 and cvc5 return
    # 'unknown' there (probe: >100 s); that sub-case is outside the claim (DESIGN.md C17)
    both_mid = And(c1 > 369.41, c1 < 550, c2 > 369.41, c2 < 550)
    ctx.prove("C17:CO2 factor non-decreasing in concentration", Or(both_mid, f2 >= f1 - 1e-9))
    ctx.prove("C17:CO2 factor positive and finite", And(f1 > 0, f1 <= 3))
