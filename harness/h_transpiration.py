"""Leaf harness: real transpiration() with root_zone_water / water_stress / aeration_stress replaced by their contracts.
Partitions: 'extraction' (potential-transpiration section straight-line, every extraction input symbolic) and 'potential'
(every input of the potential section symbolic incl. ponding and cold stress, profile concrete at field capacity)."""
import copy
import types
import numpy as np
import symx
from symx import harness, And, Or, Not, Implies, If, stubbed
from .common import build_profile, prof_for, storage, approx, prof_snapshot, prove_prof_unchanged, stub_root_zone_water
from .init_model import season_crop

import aquacrop.solution.transpiration as M


def _configs(tier):
    out = []
    profs = [(["SandyLoam"] * 2, [0.1, 0.2]), (["Clay", "Sand"], [0.1, 0.1])]
    if tier != "quick":
        profs += [(["Loam"] * 3, [0.1, 0.1, 0.1]), (["PaddyTop", "PaddyPan"], [0.15, 0.15])]
    regimes = [dict(name="extraction", part="extraction", gs=True, method=0, crop="Maize"),
               dict(name="extraction-net", part="extraction", gs=True, method=4, crop="Maize"),
               dict(name="potential", part="potential", gs=True, method=0, crop="Maize"),
               dict(name="potential-net-aged", part="potential", gs=True, method=4, crop="Wheat", aged=True),
               dict(name="potential-submerged-at-lag", part="potential", gs=True, method=0, crop="Maize", submerged=3),
               dict(name="off-season", part="potential", gs=False, method=1, crop="Maize"),
               dict(name="extraction-ETadj0", part="extraction", gs=True, method=0, crop="Maize", etadj=0)]
    if tier != "quick":
        regimes += [dict(name="extraction-potato", part="extraction", gs=True, method=1, crop="Potato"),
                    dict(name="potential-paddy", part="potential", gs=True, method=0, crop="PaddyRice")]
    for layers, dzs in profs:
        zsoil = round(sum(dzs), 2)
        for r in regimes:
            zrs = [0.1, round(0.57 * zsoil, 2), zsoil] if r["part"] == "extraction" else [round(0.57 * zsoil, 2)]
            if tier == "quick" and r["part"] == "extraction":
                zrs = zrs[1:]
            gdds = [12.0] if r["part"] == "extraction" or not r["gs"] else ([0.0, 0.4, 6.0, 11.7, 13.0] if tier != "quick" else [0.4, 6.0, 13.0])
            for zr in zrs:
                for g in gdds:
                    out.append((f"{'/'.join(layers)}|{dzs}|{r['name']}|z_root={zr}|gdd={g}", dict(layers=layers, dzs=dzs, zr=zr, gdd=g, **r)))
    return out


def _stubs(ctx, crop, rz):
    def rzw(*a):
        r = stub_root_zone_water(*a)
        rz.append(r)
        return r

    def ws(p_up, p_lo, etadj, beta, fshape, tes, dr, taw, et0, b):
        return tuple(ctx.fresh_real(f"Ks_{k}", 0, 1) for k in ("exp", "sto", "sen", "pol", "sto_lin"))

    def aer(days, lag, thrz):
        return ctx.fresh_real("Ksa_Aer", 0, 1), ctx.int(f"aer_days_out", 0, 3) if ctx.symbolic else ctx.int("aer_days_out", 0, 3)
    # root_zone_water runs for real (the rooting depth is concrete, so it is linear apart from its 0.01 mm roundings)
    return {"aquacrop.solution.transpiration": {"water_stress": ws, "aeration_stress": aer}}


@harness("transpiration", modules=["aquacrop.solution.transpiration", "aquacrop.solution.root_zone_water"], props=["C01", "C03", "C04", "C06", "C12", "C13", "C16"], configs=_configs,
         abstract_nl=True, round_enum=64, timeout_ms=10000, goals=["water-extracted", "net-irrigation-applied", "ponded-transpiration"])
def h_tr(ctx, cfg):
    soil, base = build_profile(cfg["layers"], cfg["dzs"])
    prof = prof_for(ctx, base)
    n = len(cfg["dzs"])
    zsoil = float(base.dzsum[-1])
    crop = season_crop(cfg["crop"])
    crop = copy.copy(crop)
    crop.Zmin = 0.1
    crop.Zmax = zsoil
    if "etadj" in cfg:
        crop.ETadj = cfg["etadj"]       # documented switch: 0 = no adjustment of the depletion thresholds for ET0
    part, gs, method = cfg["part"], cfg["gs"], cfg["method"]
    ic = types.SimpleNamespace()
    if part == "extraction":
        ic.th = ctx.arr("th", n, lo=base.th_dry, hi=base.th_s)
        crop.TrColdStress = 0
        ic.age_days = 0; ic.age_days_ns = 0
        ic.dap = 10; ic.delayed_cds = 0
        ic.ccx_w = 0.0; ic.ccx_w_ns = 0.0
        ic.canopy_cover = 0.5; ic.canopy_cover_ns = 0.5
        ic.surface_storage = 0.0
        ic.day_submerged = 0
        et0 = 5.0
        conc = 369.41
    else:
        ic.th = ctx.const_arr([float(x) for x in base.th_fc])
        aged = cfg.get("aged", False)
        ic.age_days = 40 if aged else 0; ic.age_days_ns = 47 if aged else 0
        ic.dap = (int(crop.MaxCanopyCD) + 60 if aged else 20) if gs else 0
        ic.delayed_cds = 0
        ic.ccx_w = ctx.real("ccx_w", 0, float(crop.CCx)); ic.ccx_w_ns = ctx.real("ccx_w_ns", 0, float(crop.CCx))
        ic.canopy_cover = ctx.real("canopy_cover", 0, float(crop.CCx)); ic.canopy_cover_ns = ctx.real("canopy_cover_ns", 0, float(crop.CCx))
        ic.surface_storage = ctx.real("surface_storage", 0, 500)
        ic.day_submerged = cfg.get("submerged", 2 if cfg.get("aged", False) else 0)      # LagAer = 3 days (INV: 0 <= day_submerged <= LagAer)
        et0 = ctx.real("et0", 0.1, 20)
        conc = ctx.real("co2", 250, 2500)
    ccmax = 1.72 * float(crop.CCx) - float(crop.CCx) ** 2 + 0.3 * float(crop.CCx) ** 3
    ic.canopy_cover_adj = ctx.real("canopy_cover_adj", 0, ccmax)
    ic.canopy_cover_adj_ns = ctx.real("canopy_cover_adj_ns", 0, ccmax)
    ic.cc_prev = ctx.real("cc_prev", 0, float(crop.CCx))
    ic.z_root = cfg["zr"] if gs else 0          # rooting depth from a small grid (the code rounds it to cm and compares it with the compartment grid)
    ic.r_cor = ctx.real("r_cor", 1, 50)
    ic.aer_days = 1
    ic.aer_days_comp = ctx.const_arr([0.0] * n) if part == "extraction" else ctx.const_arr([2.0] + [0.0] * (n - 1))
    ic.t_early_sen = 0
    ic.irr_net_cum = ctx.real("irr_net_cum", -1, 1e4)
    ic.tr_ratio = 1.0; ic.depletion = 0.0; ic.taw = 0.0; ic.t_pot = 0.0
    smt = ctx.real("NetIrrSMT", 0, 100)
    # cold-stress coefficient: logistic in gdd through exp(); under the UF abstraction its sign near GDD_lo is not provable,
    # so gdd comes from a concrete grid (below / inside / above the crop's [GDD_lo, GDD_up] window) - a stated bound
    gdd = cfg.get("gdd", 12.0)
    co2 = types.SimpleNamespace(current_concentration=conc, ref_concentration=369.41)
    th0 = list(ic.th); ss0 = ic.surface_storage; netcum0 = ic.irr_net_cum
    snap = prof_snapshot(prof)
    before = storage(base, th0) + ss0
    rz = []
    with stubbed(_stubs(ctx, crop, rz)):
        tr, trpns, trpot, nc, irrnet = M.transpiration(prof, n, max(0.1, float(cfg["dzs"][0])), crop, method, smt, ic, et0, co2, gs, gdd)   # Soil.z_top = max(z_top, dz[0]) as the Soil class sets it
    after = storage(base, nc.th) + nc.surface_storage
    ctx.out("Tr", tr); ctx.out("TrPot", trpot); ctx.out("TrPot_NS", trpns); ctx.out("IrrNet", irrnet); ctx.out("th", nc.th); ctx.out("ss", nc.surface_storage)
    ctx.prove("C01:transpiration balance S'+ss'=S+ss-Tr+IrrNet", approx(after, before - tr + irrnet, 1e-8))
    ctx.prove("C04:Tr>=0, TrPot>=0, TrPot_NS>=0", And(tr >= -1e-12, trpot >= -1e-12, trpns >= -1e-12))
    ctx.prove("C04:Tr<=TrPot", tr <= trpot + 1e-9)
    ctx.prove("C03:th within [dry,sat] after transpiration",
              And(*[And(nc.th[i] >= float(base.th_dry[i]) - 1e-12, nc.th[i] <= float(base.th_s[i]) + 1e-12) for i in range(n)]))
    ctx.prove("C03:0<=ponding'<=ponding after transpiration", And(nc.surface_storage >= -1e-12, nc.surface_storage <= ss0 + 1e-12))
    ctx.prove("contract:t_pot state = reported TrPot, tr_ratio in [0,1]", And(approx(nc.t_pot, trpot, 0), nc.tr_ratio >= 0, nc.tr_ratio <= 1))
    if not gs:
        ctx.prove("C04:zero transpiration and net irrigation outside the growing season", And(approx(tr, 0, 0), approx(trpot, 0, 0), approx(trpns, 0, 0), approx(irrnet, 0, 0)))
    if method == 4 and gs:
        ctx.prove("C04,C13:net irrigation requirement >= -0.01 mm per compartment", irrnet >= -0.01 * n - 1e-9)
        ctx.prove("C06:net irrigation counter advances by the day's requirement", approx(nc.irr_net_cum, netcum0 + irrnet, 1e-9))
        if rz:
            thfc, thwp = rz[-1][7], rz[-1][8]
    else:
        ctx.prove("C13:no net irrigation outside net-irrigation mode", approx(irrnet, 0, 0))
    prove_prof_unchanged(ctx, prof, snap, "C12:transpiration")
    if ctx.feasible(tr > 0.01):
        ctx.reach("water-extracted")
    if method == 4 and gs and ctx.feasible(irrnet > 0.01):
        ctx.reach("net-irrigation-applied")
    if part == "potential" and gs and ctx.feasible(And(ss0 > 1, nc.surface_storage < ss0)):
        ctx.reach("ponded-transpiration")
