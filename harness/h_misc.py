"""Small leaf harnesses: real germination() (frame clause with a symbolic germination depth, C12) and growth_stage() (C13)."""
import types
import numpy as np
from symx import harness, And, Or, Not, Implies, If
from .common import build_profile, prof_for, prof_snapshot, prove_prof_unchanged
from .init_model import season_crop

import aquacrop.solution.germination as MG
import aquacrop.solution.growth_stage as MS


def _germ_configs(tier):
    profs = [(["SandyLoam"] * 2, [0.1, 0.2]), (["Clay", "Sand"], [0.15, 0.15])]
    if tier != "quick":
        profs += [(["Loam"] * 3, [0.1, 0.1, 0.1]), (["PaddyTop", "PaddyPan"], [0.05, 0.25])]
    return [(f"{'/'.join(l)}|{d}|gs={int(gs)}", dict(layers=l, dzs=d, gs=gs)) for l, d in profs for gs in (True, False)]


@harness("germination", modules=["aquacrop.solution.germination"], props=["C12", "C01", "C16"], configs=_germ_configs, abstract_nl=True,
         goals=["germinates", "delayed"])
def h_germ(ctx, cfg):
    soil, base = build_profile(cfg["layers"], cfg["dzs"])
    prof = prof_for(ctx, base)
    n = len(cfg["dzs"])
    zsoil = float(base.dzsum[-1])
    th = ctx.arr("th", n, lo=base.th_dry, hi=base.th_s)
    zgerm = ctx.real("z_germ", 0.01, zsoil)            # germination depth off the compartment grid
    thr = ctx.real("GermThr", 0, 1)
    gdd = ctx.real("gdd", 0, 30)
    ic = types.SimpleNamespace(th=th, germination=False, protected_seed=False, delayed_cds=ctx.int("delayed_cds", 0, 200), delayed_gdds=ctx.real("delayed_gdds", 0, 4000))
    d0, g0 = ic.delayed_cds, ic.delayed_gdds
    th0 = list(th)
    snap = prof_snapshot(prof)
    nc = MG.germination(ic, zgerm, prof, thr, True, gdd, cfg["gs"])
    ctx.out("delayed_cds", nc.delayed_cds)
    ctx.prove("C01,C12:germination leaves the water content untouched", And(*[a is b or a == b for a, b in zip(list(nc.th), th0)]))
    prove_prof_unchanged(ctx, prof, snap, "C12:germination")
    if cfg["gs"]:
        germ = nc.germination is True
        ctx.prove("contract:germination delay counters advance by one day / the day's degree days until germination, and only then",
                  And(nc.delayed_cds == d0, nc.delayed_gdds == g0) if germ else And(nc.delayed_cds == d0 + 1, nc.delayed_gdds == g0 + gdd))
        ctx.reach("germinates" if germ else "delayed")
    else:
        ctx.prove("contract:germination state cleared outside the season", And(nc.germination is False, nc.delayed_cds == 0, nc.delayed_gdds == 0))


def _gs_configs(tier):
    return [(c, dict(crop=c)) for c in (["Maize", "Wheat", "Potato"] if tier == "quick" else ["Maize", "Wheat", "Potato", "Cotton", "Tomato", "PaddyRice", "Quinoa", "SugarBeet"])]


@harness("growth_stage", modules=["aquacrop.solution.growth_stage"], props=["C13", "C16"], configs=_gs_configs)
def h_gstage(ctx, cfg):
    crop = season_crop(cfg["crop"])
    dap = ctx.int("dap", 1, 400)
    delayed = ctx.int("delayed_cds", 0, 100)
    ctx.assume(delayed < dap)
    ic = types.SimpleNamespace(dap=dap, delayed_cds=delayed, gdd_cum=0.0, delayed_gdds=0.0, growth_stage=0)
    nc = MS.growth_stage(crop, ic, True)
    t = dap - delayed
    want = If(t <= float(crop.Canopy10Pct), 1, If(t <= float(crop.MaxCanopy), 2, If(t <= float(crop.Senescence), 3, 4)))
    ctx.prove("C13:growth stage (which selects the soil-moisture threshold) follows the crop calendar", nc.growth_stage == want)
    nc2 = MS.growth_stage(crop, nc, False)
    ctx.prove("C13:growth stage is 0 outside the growing season", nc2.growth_stage == 0)
