"""Composition machinery: the real solution_single_time_step / _perform_timestep executed with every process function
rebound to a contract stub (fresh symbolic outputs constrained by the callee's proved contract, same in-place writes)."""
import copy
import types
import numpy as np

import symx
from symx import And, Or, Not, Implies, If, SArr, SF, SI
from .common import build_profile, prof_for, storage, approx, stub_root_zone_water


def eq(a, b):
    """stub equation: exact in the solver, 1e-9 slack when replayed on floats"""
    if symx.active().symbolic:
        return a == b
    return abs(a - b) <= 1e-9 * max(1.0, abs(a), abs(b))


def le(a, b):
    if symx.active().symbolic:
        return a <= b
    return a <= b + 1e-9 * max(1.0, abs(a), abs(b))

from aquacrop.entities.initParamVariables import InitialCondition
from aquacrop.entities.irrigationManagement import IrrMngtStruct
from aquacrop.entities.fieldManagement import FieldMngtStruct

TS_MOD = "aquacrop.timestep.run_single_timestep"
FLUX_COLS = "time_step_counter season_counter dap Wr z_gw surface_storage IrrDay Infl Runoff DeepPerc CR GwIn Es EsPot Tr TrPot".split()
GROWTH_COLS = "time_step_counter season_counter dap gdd gdd_cum z_root canopy_cover canopy_cover_ns biomass biomass_ns harvest_index harvest_index_adj DryYield FreshYield YieldPot".split()


class Table:
    """stand-in for the 2-D output arrays: records row assignments (row index may be symbolic)"""

    def __init__(self, ncols):
        self.ncols = ncols
        self.writes = []        # (row, start, values)

    def __setitem__(self, key, val):
        row, sl = key
        vals = list(val) if isinstance(val, (list, tuple, np.ndarray, SArr)) else [val]
        start = 0
        if isinstance(sl, slice):
            start = sl.start or 0
        self.writes.append((row, start, vals))

    def row(self):
        """merged content of the (single) row written"""
        out = {}
        rows = []
        for r, start, vals in self.writes:
            rows.append(r)
            for i, v in enumerate(vals):
                out[start + i] = v
        return rows, [out.get(i) for i in range(self.ncols)]


class FinalStats:
    def __init__(self):
        self.rows = []
        self.loc = self

    def __setitem__(self, key, val):
        self.rows.append((key, list(val)))


class Span:
    """time_span stand-in: dates are integers (day ordinals); supports [], get_loc, len"""

    def __init__(self, start, n):
        self.start = start      # z3-free: SI or int
        self.n = n

    def __getitem__(self, i):
        ctx = symx.active()
        if isinstance(i, SI) or isinstance(self.n, SI):
            bad = Or(i < 0, i >= self.n) if not isinstance(i, int) else Or(self.n <= i)
            if i is -1 or (isinstance(i, int) and i < 0):
                return self.start + self.n + i
            if ctx.feasible(bad):
                ctx.hazard("index", "time_span index out of range", with_model=True)
                raise IndexError("time_span index out of range")
        return self.start + i

    def get_loc(self, d):
        return d - self.start

    def __len__(self):
        raise symx.Abort("len(time_span) of symbolic span")


class Stubs:
    """contract stubs for the 20 process functions; records what each received (for wiring / taint checks)"""

    def __init__(self, ctx, base, n, cfg):
        self.ctx = ctx
        self.base = base
        self.n = n
        self.cfg = cfg
        self.seen = {}

    def S(self, th):
        return storage(self.base, th)

    def fresh_th(self, name):
        return SArr([self.ctx.fresh_real(name, float(self.base.th_dry[i]), float(self.base.th_s[i])) for i in range(self.n)]) if self.ctx.symbolic \
            else np.array([self.ctx.fresh_real(name, float(self.base.th_dry[i]), float(self.base.th_s[i])) for i in range(self.n)])

    # 1
    def check_groundwater_table(self, prof, zgw_prev, th, fca, wt, zgw):
        self.seen["cgw"] = dict(th=th)
        if wt == 1:
            f = self.ctx.fresh_real
            fca2 = self.ctx.const_arr([f("fca", float(self.base.th_fc[i]), float(self.base.th_s[i])) for i in range(self.n)])
            return fca2, self.ctx.bool("wt_in_soil"), zgw
        return fca, None, None

    # 2
    def root_development(self, crop, prof, dap, zroot, *a):
        gs = a[-2]
        self.seen["root"] = dict(dap=dap, gs=gs)
        if gs is True:
            return self.ctx.fresh_real("z_root", float(crop.Zmin), float(crop.Zmax)), self.ctx.fresh_real("r_cor", 1, 1e3)
        return 0, self.ctx.fresh_real("r_cor", 1, 1e3)

    # 3
    def pre_irrigation(self, prof, crop, nc, gs, irrm):
        self.seen["pre"] = dict(gs=gs)
        if gs is True and irrm.irrigation_method == 4:
            pre = self.ctx.fresh_real("PreIrr", 0, 1e4)
            th2 = self.fresh_th("th_pre")
            self.ctx.assume(eq(self.S(th2), self.S(nc.th) + pre))
            self.ctx.assume(Implies(nc.dap != 1, pre == 0))
            nc.th = th2
            return nc, pre
        return nc, 0

    # 4
    def drainage(self, prof, th, fca):
        dp = self.ctx.fresh_real("DeepPerc_d", 0, 1e4)
        th2 = self.fresh_th("th_dr")
        self.ctx.assume(eq(self.S(th2) + dp, self.S(th)))
        fl = self.ctx.const_arr([self.ctx.fresh_real("FluxOut", 0, float(self.base.Ksat[i])) for i in range(self.n)])
        self.seen["drainage"] = dict(dp=dp)
        return th2, dp, fl

    # 5
    def rainfall_partition(self, P, th, dsub, sr_inhb, bunds, zb, pct, cn, adj_cn, zcn, ncomp, prof):
        self.seen["rain"] = dict(P=P, pct=pct, bunds=bunds, zb=zb, sr_inhb=sr_inhb, cn=cn, adj_cn=adj_cn, zcn=zcn)
        ro = self.ctx.fresh_real("Runoff_cn", 0, 300)
        self.ctx.assume(le(ro, P))
        self.ctx.assume(Implies(P <= 0, ro == 0))
        return ro, P - ro, dsub

    # 6
    def irrigation(self, method, smt, eff, maxirr, interval, sched, depth, maxseason, stage, irr_cum, e_pot, t_pot, zroot, th, dap, tsc, crop,
                   prof, ztop, gs, rain, runoff):
        self.seen["irr"] = dict(method=method, gs=gs, irr_cum=irr_cum, dap=dap, tsc=tsc, rain=rain, runoff=runoff, e_pot=e_pot, t_pot=t_pot)
        if gs is True:
            irr = self.ctx.fresh_real("Irr", 0, 1e4) if method not in (0, 4) else 0
            return self.ctx.fresh_real("depletion", -1e4, 1e4), self.ctx.fresh_real("taw", 0, 1e4), irr_cum + irr, irr
        return 0., 0., 0., 0.

    # 7
    def infiltration(self, prof, ss, fca, th, infl, irr, eff, bunds, zb, flux, dp0, ro0, gs):
        self.seen["inf"] = dict(ss=ss, infl=infl, irr=irr, eff=eff, bunds=bunds, zb=zb, dp0=dp0, ro0=ro0, gs=gs)
        f = self.ctx.fresh_real
        th2 = self.fresh_th("th_inf")
        ss2 = f("ss_inf", 0, 1e4)
        d_dp = f("dDeepPerc", 0, 1e4)
        d_ro = f("dRunoff", 0, 1e4)
        infl2 = f("Infl_out", -1e4, 1e4)
        applied = If(infl >= 0, infl, 0) + (irr * (eff / 100) if gs is True else 0)
        self.ctx.assume(eq(infl2 + d_ro, applied))
        self.ctx.assume(eq(self.S(th2) + ss2, self.S(th) + ss + infl2 - d_dp))
        self.ctx.assume(le(d_ro, applied + ss))
        self.ctx.assume(le(-ss, infl2))
        if bunds:
            self.ctx.assume(And(le(0, infl2), le(ss2, zb)))
        else:
            self.ctx.assume(And(Implies(infl2 < -1e-9, ss > 0), ss2 == 0))
        self.ctx.assume(Implies(And(applied <= 0, ss <= 0), And(infl2 == 0, d_ro == 0)))
        return th2, ss2, dp0 + d_dp, ro0 + d_ro, infl2, flux

    # 8
    def capillary_rise(self, prof, nlayer, fshape, nc, flux, wt):
        self.seen["cr"] = dict(wt=wt)
        if wt == 1:
            cr = self.ctx.fresh_real("CR", 0, 1e4)
            w = self.ctx.fresh_real("CR_added", 0, 1e4)
            zsoil = float(self.base.dzsum[-1])
            self.ctx.assume(And(le(cr - w, 0.05 * zsoil), le(w - cr, 0.05 * zsoil)))
            th2 = self.fresh_th("th_cr")
            self.ctx.assume(eq(self.S(th2), self.S(nc.th) + w))
            nc.th = th2
            return nc, cr
        return nc, 0

    # 9, 10
    def germination(self, nc, *a):
        self.seen["germ"] = dict(gs=a[-1])
        return nc

    def growth_stage(self, crop, nc, gs):
        return nc

    # 11
    def canopy_cover(self, crop, prof, ztop, nc, gdd, et0, gs):
        self.seen["cc"] = dict(gdd=gdd, et0=et0, gs=gs)
        f = self.ctx.fresh_real
        if gs is True:
            nc.canopy_cover = f("cc", 0, float(crop.CCx))
            nc.canopy_cover_ns = f("cc_ns", 0, float(crop.CCx))
            self.ctx.assume(nc.canopy_cover <= nc.canopy_cover_ns)
            nc.crop_dead = self.cfg.get("dies_today", False) or nc.crop_dead
        else:
            nc.canopy_cover = 0; nc.canopy_cover_ns = 0; nc.canopy_cover_adj = 0; nc.canopy_cover_adj_ns = 0
        return nc

    # 12
    def soil_evaporation(self, *a):
        th, ss, et0, infl, rain, irr, gs = a[22], a[31], a[34], a[35], a[36], a[37], a[38]
        self.seen["evap"] = dict(th=th, ss=ss, infl=infl, rain=rain, irr=irr, gs=gs, method=a[13], mulches=a[15], f_mulch=a[16], mulch_pct=a[17],
                                 wetsurf=a[14], tsc=a[2], off=a[1], steps=a[0], dap=a[18])
        f = self.ctx.fresh_real
        es = f("Es", 0, 1e3)
        espot = f("EsPot", 0, 1e3)
        self.ctx.assume(le(es, espot))
        th2 = self.fresh_th("th_ev")
        ss2 = f("ss_ev", 0, 1e4)
        self.ctx.assume(eq(self.S(th2) + ss2, self.S(th) + ss - es))
        self.ctx.assume(le(ss2, ss))
        return espot, th2, self.ctx.bool("stage2_out"), f("w_stage_2", 0, 1), f("w_surf", 0, 100), ss2, f("evap_z", 0.15, 0.301), es, espot

    # 13
    def transpiration(self, prof, ncomp, ztop, crop, method, smt, nc, et0, co2, gs, gdd):
        self.seen["tr"] = dict(method=method, gs=gs, et0=et0, gdd=gdd)
        f = self.ctx.fresh_real
        if gs is True:
            tr = f("Tr", 0, 1e3); trpot = f("TrPot", 0, 1e3); trpns = f("TrPot_NS", 0, 1e3)
            self.ctx.assume(le(tr, trpot))
            irrnet = f("IrrNet", -0.01 * self.n, 1e4) if method == 4 else 0
            th2 = self.fresh_th("th_tr")
            ss2 = f("ss_tr", 0, 1e4)
            self.ctx.assume(eq(self.S(th2) + ss2, self.S(nc.th) + nc.surface_storage - tr + irrnet))
            nc.th = th2; nc.surface_storage = ss2
            nc.irr_net_cum = (nc.irr_net_cum + irrnet) if method == 4 else 0
            nc.t_pot = trpot
            return tr, trpns, trpot, nc, irrnet
        nc.irr_net_cum = 0
        nc.t_pot = 0
        return 0, 0, 0, nc, 0

    # 14
    def groundwater_inflow(self, prof, nc):
        if self.cfg.get("wt", 0) == 1:
            g = self.ctx.fresh_real("GwIn", 0, 1e4)
            th2 = self.fresh_th("th_gw")
            self.ctx.assume(eq(self.S(th2), self.S(nc.th) + g))
            nc.th = th2
            return nc, g
        return nc, 0

    # 15..17
    def HIref_current_day(self, hi_ref, hifinal, dap, dcd, yf, plp, cc, ccprev, ccxw, crop, gs):
        if gs is True:
            return self.ctx.fresh_real("hi_ref", 0, float(crop.HI0)), self.ctx.bool("yield_form"), self.ctx.fresh_real("pct_lag", 0, 100)
        return 0, yf, plp

    def biomass_accumulation(self, crop, dap, dcd, hiref, plp, B, Bns, tr, trpot, et0, gs):
        self.seen["bio"] = dict(tr=tr, trpot=trpot, et0=et0, gs=gs)
        if gs is True:
            return B + self.ctx.fresh_real("dB", 0, 1e4), Bns + self.ctx.fresh_real("dB_ns", 0, 1e4)
        return 0, 0

    def harvest_index(self, prof, ztop, crop, nc, et0, tmax, tmin, gs):
        self.seen["hi"] = dict(et0=et0, tmax=tmax, tmin=tmin, gs=gs)
        if gs is True:
            nc.harvest_index = self.ctx.fresh_real("hi", 0, float(crop.HI0))
            nc.harvest_index_adj = self.ctx.fresh_real("hi_adj", 0, 2.0)
        else:
            nc.harvest_index = 0; nc.harvest_index_adj = 0
        return nc

    def root_zone_water(self, *a):
        return stub_root_zone_water(*a)

    def growing_degree_day(self, method, tupp, tbase, tmax, tmin):
        self.seen["gdd"] = dict(tmax=tmax, tmin=tmin)
        return self.ctx.fresh_real("gdd", 0, float(tupp) - float(tbase))

    def table(self):
        names = ["check_groundwater_table", "root_development", "pre_irrigation", "drainage", "rainfall_partition", "irrigation", "infiltration",
                 "capillary_rise", "germination", "growth_stage", "canopy_cover", "soil_evaporation", "transpiration", "groundwater_inflow",
                 "HIref_current_day", "biomass_accumulation", "harvest_index", "root_zone_water", "growing_degree_day"]
        return {TS_MOD: {n: getattr(self, n) for n in names}}


def make_state(ctx, base, n, crop, in_season, cfg):
    """InitialCondition within INV (symbolic where the orchestrator reads it)"""
    ic = InitialCondition(n)
    ic.th = ctx.arr("th", n, lo=base.th_dry, hi=base.th_s)
    ic.th_fc_Adj = ctx.const_arr([float(x) for x in base.th_fc])
    ic.thini = ctx.const_arr([float(x) for x in base.th_fc])
    ic.surface_storage = ctx.real("surface_storage", 0, 500)
    ic.irr_cum = ctx.real("irr_cum", 0, 1e4)
    ic.irr_net_cum = ctx.real("irr_net_cum", -1, 1e4)
    ic.e_pot = ctx.real("e_pot", 0, 30)
    ic.t_pot = ctx.real("t_pot", 0, 30)
    ic.z_gw = ctx.real("z_gw_prev", -1, 40)
    ic.gdd_cum = ctx.real("gdd_cum", 0, 1e4)
    ic.biomass = ctx.real("biomass", 0, 1e5)
    ic.biomass_ns = ctx.real("biomass_ns", 0, 1e5)
    ic.z_root = ctx.real("z_root", 0, 3)
    ic.canopy_cover = ctx.real("canopy_cover", 0, 1)
    ic.canopy_cover_ns = ctx.real("canopy_cover_ns", 0, 1)
    ic.harvest_index = ctx.real("harvest_index", 0, 1)
    ic.harvest_index_adj = ctx.real("harvest_index_adj", 0, 2)
    ic.DryYield = ctx.real("DryYield_prev", 0, 1e3)
    ic.FreshYield = ctx.real("FreshYield_prev", 0, 1e4)
    ic.w_surf = 0.0; ic.evap_z = 0.15; ic.w_stage_2 = 0.0; ic.stage2 = False
    ic.growth_stage = 2 if in_season else 0
    ic.crop_mature = cfg.get("mature", False)
    ic.crop_dead = cfg.get("dead", False)
    ic.harvest_flag = cfg.get("harvest_flag", False)
    ic.germination = True
    ic.HIfinal = float(crop.HI0)
    return ic


def make_params(ctx, soil, base, prof, crop, cfg):
    ps = types.SimpleNamespace()
    ps.Soil = types.SimpleNamespace(Profile=prof, cn=float(soil.cn), adj_cn=1, z_cn=0.3, nComp=len(base.dz), z_top=0.1, nLayer=int(np.unique(base.Layer).shape[0]),
                                    fshape_cr=16, z_germ=0.3, evap_z_min=0.15, evap_z_max=0.3, rew=float(soil.rew), kex=1.1, fwcc=50, f_wrel_exp=0.4, f_evap=4)
    ps.CO2 = types.SimpleNamespace(current_concentration=369.41, ref_concentration=369.41)
    ps.water_table = cfg.get("wt", 0)
    ps.z_gw = None
    ps.Seasonal_Crop_List = [crop, copy.copy(crop), copy.copy(crop)]
    ps.CropChoices = [crop.Name] * 3
    ps.Fallow_Crop = copy.copy(crop)
    im = IrrMngtStruct(10)
    im.irrigation_method = cfg.get("method", 0)
    im.AppEff = ctx.real("AppEff", 0, 100)
    im.MaxIrr = ctx.real("MaxIrr", 0, 500)
    im.MaxIrrSeason = ctx.real("MaxIrrSeason", 0, 1e4)
    im.NetIrrSMT = ctx.real("NetIrrSMT", 0, 100)
    im.WetSurf = ctx.real("WetSurf", 0, 100)
    ps.IrrMngt = im
    ps.FallowIrrMngt = IrrMngtStruct(10)
    fm = FieldMngtStruct()
    fm.bunds = cfg.get("bunds", False)
    fm.z_bund = ctx.real("z_bund", 0.0011, 500) if fm.bunds else ctx.real("z_bund", 0, 500)
    fm.mulches = cfg.get("mulches", False)
    fm.mulch_pct = ctx.real("mulch_pct", 0, 100)
    fm.f_mulch = ctx.real("f_mulch", 0, 1)
    fm.curve_number_adj = cfg.get("cn_adj", False)
    fm.curve_number_adj_pct = ctx.real("curve_number_adj_pct", -20, 20)
    fm.sr_inhb = cfg.get("sr_inhb", False)
    ps.FieldMngt = fm
    ff = FieldMngtStruct()
    ff.bunds = cfg.get("fallow_bunds", False)
    ff.z_bund = ctx.real("fallow_z_bund", 0.0011, 500) if ff.bunds else 0.0
    ff.curve_number_adj = cfg.get("cn_adj", False)
    ff.curve_number_adj_pct = ctx.real("fallow_curve_number_adj_pct", -20, 20)
    ps.FallowFieldMngt = ff
    return ps
