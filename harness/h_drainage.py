"""Leaf harness: real aquacrop.solution.drainage.drainage from an arbitrary INV state."""
import numpy as np
from symx import harness, And
from .common import build_profile, prof_for, storage, approx, profile_catalogue, prof_snapshot, prove_prof_unchanged

import aquacrop.solution.drainage as M


def _configs(tier):
    out = []
    ns = [2] if tier == "quick" else [2, 3]
    for n in ns:
        cat = profile_catalogue(tier, n, heavy=(tier == "quick"))
        if n == 3:
            cat = [cat[7], cat[-4]]          # SandyLoam x3 and PaddyTop/PaddyPan/PaddyPan (about 10^4 paths each)
        if n == 2:
            cat = cat + [(["Drainy", "Drainy"], [0.2, 0.2]), (["Drainy", "Drainy"], [0.1, 0.3]), (["SandyLoam", "TightClay"], [0.05, 0.15])]
        for layers, dzs in cat:
            out.append((f"{'/'.join(layers)}|{','.join(map(str, dzs))}", {"layers": layers, "dzs": dzs}))
    return out


@harness("drainage", modules=["aquacrop.solution.drainage"], props=["C01", "C03", "C04", "C12", "C16"], configs=_configs,
         goals=["ksat-limited"])
def h_drainage(ctx, cfg):
    soil, base = build_profile(cfg["layers"], cfg["dzs"])
    prof = prof_for(ctx, base)
    n = len(cfg["dzs"])
    th = ctx.arr("th", n, lo=base.th_dry, hi=base.th_s)
    fca = ctx.arr("fca", n, lo=base.th_fc, hi=base.th_s)
    snap = prof_snapshot(prof)
    th0 = list(th)
    before = storage(base, th)
    thnew, dp, flux = M.drainage(prof, th, fca)
    after = storage(base, thnew)
    ctx.out("thnew", thnew); ctx.out("DeepPerc", dp); ctx.out("FluxOut", flux)
    ctx.prove("C01:drainage balance S'+DeepPerc=S", approx(after + dp, before, 1e-9))
    ctx.prove("C04:DeepPerc>=0", dp >= -1e-12)
    ctx.prove("C03:th<=th_s after drainage", And(*[thnew[i] <= float(base.th_s[i]) + 1e-12 for i in range(n)]))
    ctx.prove("C03:th>=th_dry after drainage", And(*[thnew[i] >= float(base.th_dry[i]) - 1e-12 for i in range(n)]))
    ctx.prove("contract:0<=FluxOut<=Ksat", And(*[And(flux[i] >= -1e-9, flux[i] <= float(base.Ksat[i]) + 1e-9) for i in range(n)]))
    ctx.prove("C12:drainage leaves its input th untouched", And(*[a == b for a, b in zip(list(th), th0)]))
    prove_prof_unchanged(ctx, prof, snap, "C12:drainage")
    # coverage goals
    if ctx.feasible(dp >= float(base.Ksat[-1]) - 1e-9):
        ctx.reach("ksat-limited")
