"""Per-property metadata: bounds, assumptions, clauses outside the claim, time budgets, extra (non-path) checks."""

COMMON_ASSUMPTIONS = [
    "floats are modelled as exact reals (z3 Real); concrete constants enter as the exact rational of the IEEE double; "
    "accumulated rounding of symbolic operations, overflow and NaN/inf other than through the recorded hazards are outside the claim",
    "exp/log/pow are uninterpreted functions constrained by sound ground axioms and true-value anchors (over-approximation); "
    "a solver counterexample is reported only after it reproduces on the unpatched function with concrete floats",
    "the pre-state of a leaf harness is arbitrary within the state invariant INV (DESIGN.md section 5), not a state reached by a history",
    "inputs are finite and within the documented ranges (DESIGN.md section 3.5)",
    "z3 5.1 (python wheel) is trusted; engine shim validated per path against the unpatched functions",
]

PROPS = {}


def prop(pid, **kw):
    PROPS[pid] = kw
