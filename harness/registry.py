"""Per-property metadata: bounds, assumptions, clauses outside the claim, time budgets."""

COMMON_ASSUMPTIONS = [
    "floats are modelled as exact reals (z3 Real); concrete constants enter as the exact rational of the IEEE double; "
    "accumulated rounding of symbolic operations, overflow and NaN/inf other than through the recorded hazards are outside the claim",
    "exp/log/pow are uninterpreted functions constrained by sound ground axioms and true-value anchors (over-approximation); where a harness "
    "abstracts symbolic products/quotients (MUL/DIV) the same holds; a solver counterexample is reported only after it reproduces on the "
    "unpatched function with concrete floats",
    "the pre-state of a leaf harness is arbitrary within the state invariant INV (DESIGN.md section 5), not a state reached by a history",
    "inputs are finite and within the documented ranges (DESIGN.md section 3.5)",
    "contract stubs used by composition harnesses assume exactly the clauses that the leaf harnesses of the same property set discharge on the real callee",
    "z3 5.1 (python wheel) is trusted; the engine shim is validated per path against the unpatched functions (traces_validated_against_impl)",
]

WATER_BOUNDS = {
    "quick": "profiles of 2 compartments (4 for soil evaporation; 3 for some groundwater cases) with the hydraulic parameters of SandyLoam, Paddy, Clay/Sand, "
             "PaddyTop/PaddyPan (Ksat 15 over 2), SandyLoam over a 0.5 mm/day clay, a fast-draining 30 mm/day layer; thickness 0.1-0.2 m; evaporation: first 1 of the "
             "20 sub-daily steps with the true sub-step demand, evaporation depth from {0.15, 0.237, 0.3} m, layer expansion cut after 2 iterations; "
             "transpiration: rooting depth from a 2-point grid per profile, degree days from a 3-point grid, cold-stress/ageing regimes enumerated",
    "thorough": "2 and 3 compartments, all 15 built-in soils plus 4 layered and 2 uneven-thickness profiles; evaporation: first sub-step, 4 evaporation depths, 3 profiles, "
                "infiltration: 2 compartments only (3 take > 1 h per configuration); drainage: 3 compartments for 2 profiles; "
                "transpiration: 3 rooting depths, 5 degree-day values, 4 crops",
}

PROPS = {}


def prop(pid, **kw):
    PROPS[pid] = kw


prop("C01",
     bounds=WATER_BOUNDS,
     outside=["profiles with more than 3 (4) compartments; defects that need >= 4 compartments to show",
              "sub-daily evaporation steps 2..20 are covered by the one-step induction argument of DESIGN.md 3.3, not unrolled",
              "thermal-time crops in the season-reset harness"],
     assumptions=["capillary-rise balance asserted with the documented 0.05 mm per metre tolerance",
                  "composition: the daily balance is proved on the real solution_single_time_step with every process replaced by its contract"],
     budget_s={"quick": 1500, "thorough": 14400})
prop("C02", bounds=WATER_BOUNDS,
     outside=["effective curve numbers above 100 (excluded by the statement)", "curve-number depth z_cn beyond the profile depth (the real code then indexes past the profile)"],
     assumptions=["with bunds the ponded depth at the start of the day does not exceed the bund height (INV)"],
     budget_s={"quick": 1200, "thorough": 14400})
prop("C03", bounds=WATER_BOUNDS, outside=["initial water content construction (C18, not applicable)"], budget_s={"quick": 1500, "thorough": 14400})
prop("C04", bounds=WATER_BOUNDS,
     outside=["potential-evaporation section and extraction section of soil_evaporation / transpiration are explored in separate partitions (quick tier); "
              "an unpartitioned configuration (all inputs symbolic) was tried in the thorough tier and left one path of 1.5e5 undecided for C03 (abstract counterexample, exact NRA unknown): it is not part of either tier"],
     budget_s={"quick": 1800, "thorough": 14400})
prop("C05",
     bounds={"quick": "8 calendar-day crops (canopy: Maize, Cotton; roots: Maize, Wheat, Potato; harvest index: Maize, Wheat, Potato), one day from an arbitrary INV state; "
                      "root development: time from a 3-point grid, penetrability from {100, 30/15, 2/1} %; harvest index: reference index from {0.5, 1.0} x HI0",
             "thorough": "17 calendar-day crops, finer grids (7 times, 4 penetrabilities, 5 reference-index values)"},
     outside=["thermal-time (GDD) crops: the leaf harnesses use the calendar-day branch",
              "canopy cover <= CCx while recovering from early senescence after the start of the senescence stage (update_CCx_CDC branch): exp-of-exp arithmetic the abstraction cannot bound",
              "adjusted harvest index cap with an incomplete pollination factor (HIadj = HImult*f_pol*HI0 multiplies two symbolic factors)",
              "trajectory clauses hold through one-step induction from INV, not by unrolling seasons"],
     budget_s={"quick": 1500, "thorough": 14400})
prop("C06", bounds={"all": "composition harness on a 2-compartment profile; 11 (quick) / 16 (thorough) day regimes; leaf harnesses for biomass, irrigation, pre-irrigation, transpiration"},
     outside=["conversion of the output arrays to DataFrames (outputs_when_model_is_finished, pandas)", "sum over a season of the daily column is proved as the inductive invariant irr_cum' = irr_cum + IrrDay"],
     budget_s={"quick": 900, "thorough": 7200})
prop("C07", bounds={"all": "1-3 seasons (1-5 in the thorough tier), symbolic integer dates (start, length, planting and harvest dates, current step), off-season flag and harvest flag enumerated"},
     outside=["derivation of planting/harvest dates and the initial season counter from the date strings (read_model_parameters, compute_crop_calendar: pandas/str code) is assumed as the well-formedness precondition",
              "thermal-time maturity (gdd_cum >= Maturity) in the composition harness"],
     budget_s={"quick": 600, "thorough": 3600})
prop("C08", bounds={"all": "Maize (and Wheat in thorough), irrigation methods 0,1,2,4 (+3,5), start at field capacity and wilting point, bunds; first season executed concretely, "
                           "every scalar of the state havocked before the real season reset, first day of season 2 executed by the real model"},
     outside=["thermal-time crops", "state held in arrays other than th/thini is not havocked (aer_days_comp is reset by the code under test and compared concretely)"],
     budget_s={"quick": 600, "thorough": 3600})
prop("C09", bounds={"quick": "<= 3 successive run_model calls, each num_steps <= 3 (symbolic), termination after T <= 5 transitions (symbolic), optional clock jump",
                    "thorough": "<= 4 calls, num_steps <= 8, T <= 12"},
     outside=["equality of the pandas tables is implied through equality of the arguments reaching the output conversion", "process_outputs=True"],
     budget_s={"quick": 300, "thorough": 3600})
prop("C12", bounds=WATER_BOUNDS, cfg_limit={"quick": 5, "thorough": 12},
     outside=["profiles deepened for deep-rooted crops (pandas code)", "weather matrix for thermal-time crops (reset_initial_conditions masks a copy; not encoded)"],
     budget_s={"quick": 1500, "thorough": 14400})
prop("C13", bounds={"all": "real irrigation() with every parameter symbolic (SMT x4, AppEff, MaxIrr, MaxIrrSeason, interval 1..60, schedule, depth), methods 0-5, growth stages enumerated"},
     outside=["re-indexing of a dated schedule onto the simulation dates (read_irrigation_management, pandas reindex)"],
     budget_s={"quick": 600, "thorough": 3600})
prop("C14", bounds={"quick": "Maize (Champion) and Wheat (Tunis), methods 0/1, cut days {1,2,9,70}; records outside the window for Maize and WheatGDD; one end-date extension",
                    "thorough": "methods 0,1,2,4, 8 cut days, 4 crops"},
     outside=["reference ET records below 0.01 mm/day"], budget_s={"quick": 600, "thorough": 3600})
prop("C15", bounds={"quick": "11 of the 120 column orders + extra columns (first/middle/last/with gaps), offset, shuffled, date and 5-based indexes, leading/trailing rows; 4 probed days",
                    "thorough": "all 120 column orders"},
     outside=["thermal-time crops (their calendar is computed by pandas code from named columns)"], budget_s={"quick": 300, "thorough": 1800})
prop("C16", bounds=WATER_BOUNDS, cfg_limit={"quick": 5, "thorough": 12},
     outside=["initialisation-time behaviour: date parsing, leap-day planting dates, windows without seasons, catalogue-wide construction of Soil/Crop (pandas/str code)",
              "the claim is: no step of a run can raise from a state within INV for the enumerated switch values (ETadj 0/1, zero-height bunds, methods 0-5, water table, ...)"],
     budget_s={"quick": 1800, "thorough": 14400})
prop("C17", bounds={"quick": "all 37 crops (CO2 factor: 5 WP/fsink classes), continuous argument ranges (depletion -20..120 % of TAW=100, ET0 0.1..20, temperatures -30..60, time 0..400 d / 4000 GDD, CO2 250..2500)",
                    "thorough": "all 37 crops"},
     outside=["CO2 factor monotonicity when both concentrations lie strictly between the reference (369.41) and 550 ppm: z3 and cvc5 return unknown on the mixed rational/exponential branch",
              "aeration stress coefficient"], budget_s={"quick": 900, "thorough": 7200})
prop("C19", bounds={"quick": "2-3 compartment profiles of 3 soils/layerings, water table depth symbolic in (0, 40] m",
                    "thorough": "7 profiles"},
     outside=["daily table depth follows the configured observations (read_groundwater_table, pandas interpolation)",
              "far table == no table is proved as: adjusted field capacity = field capacity, CR = 0, GwIn = 0 and th untouched once the table is >= Xmax below every compartment / >= 4 m below the bottom"],
     budget_s={"quick": 900, "thorough": 7200})
prop("C20", bounds=WATER_BOUNDS,
     outside=["explicit default harvest date (read_model_parameters / compute_crop_calendar: str + pandas code)", "empty schedule DataFrame (read_irrigation_management)"],
     budget_s={"quick": 1200, "thorough": 7200})
