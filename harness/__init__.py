"""Importing this package registers every harness (one module per function group)."""
import importlib
import os
import pkgutil

for m in sorted(pkgutil.iter_modules([os.path.dirname(__file__)]), key=lambda x: x.name):
    if m.name.startswith("h_"):
        importlib.import_module(f"harness.{m.name}")
