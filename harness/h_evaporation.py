"""Leaf harness: real soil_evaporation() (+ real evap_layer_water_content) from an arbitrary INV state.
The 20 sub-daily steps are unrolled to the first k with the true sub-step demand (EvapSteps token: 20 in arithmetic,
k under range(int())); the evaporation-layer expansion loop is cut after `exp_iters` iterations (stated bound)."""
import types
import numpy as np
from symx import harness, And, Or, Not, Implies, If, EvapSteps, stubbed, PathEnd
import symx
from .common import build_profile, prof_for, storage, approx, prof_snapshot, prove_prof_unchanged, soil_params

import aquacrop.solution.soil_evaporation as M
import aquacrop.solution.evap_layer_water_content as ML


def poly(cc):
    return 1.72 * cc - cc ** 2 + 0.3 * cc ** 3


def _configs(tier):
    out = []
    profs = [(["SandyLoam"] * 4, [0.1] * 4), (["Clay", "Clay", "Sand", "Sand"], [0.1] * 4)]
    if tier != "quick":
        profs += [(["Sand"] * 4, [0.1] * 4)]
    # partitions: 'extraction' = potential-evaporation section straight-line (fallow: EsPot = Kex*et0, et0 from 0 so that EsPot
    # sweeps [0, 22] mm), every extraction input symbolic; 'potential' = every input of the potential-evaporation section
    # symbolic, extraction state restricted (no ponding, no readily evaporable water left: stage 2 only)
    regimes = [
        dict(name="extraction", part="extraction", gs=False, reinit=False, dap="zero", mulch=False, method=0, ccx=0.96),
        dict(name="extraction-firststep", part="extraction", gs=False, reinit=True, dap="zero", mulch=False, method=0, ccx=0.96),
        dict(name="season-mid", part="potential", gs=True, reinit=False, dap="mid", mulch=False, method=0, ccx=0.96),
        dict(name="season-senesc-mulch-irrig", part="potential", gs=True, reinit=False, dap="late", mulch=True, method=1, ccx=0.96),
        dict(name="season-day1-net", part="potential", gs=True, reinit=True, dap="one", mulch=False, method=4, ccx=0.96),
        dict(name="fallow-mulch", part="potential", gs=False, reinit=False, dap="zero", mulch=True, method=0, ccx=0.96),
        dict(name="season-mid-mulch", part="potential", gs=True, reinit=False, dap="mid", mulch=True, method=0, ccx=0.96),
        dict(name="season-mid-mulch-irrigated", part="potential", gs=True, reinit=False, dap="mid", mulch=True, method=1, ccx=0.96),
        dict(name="season-denseCC", part="potential", gs=True, reinit=False, dap="mid", mulch=False, method=0, ccx=0.98),
    ]
    if tier != "quick":
        regimes += [dict(name="season-late-denseCC-irrig", part="potential", gs=True, reinit=False, dap="late", mulch=False, method=5, ccx=0.99),
                                        dict(name="fallow-first-step", part="potential", gs=False, reinit=True, dap="zero", mulch=False, method=0, ccx=0.96),
                    dict(name="season-mid-mulch-irrig", part="potential", gs=True, reinit=False, dap="mid", mulch=True, method=3, ccx=0.96)]
    ks = [1]      # two unrolled sub-steps: 'Es >= 0' stays undecided (abstract counterexamples, exact NRA unknown) - one step + induction argument only
    evzs = [0.15, 0.237, 0.3] if tier == "quick" else [0.15, 0.2, 0.237, 0.3]
    for layers, dzs in profs:
        for r in regimes:
            for k in ks:
                if k == 2 and (r["name"] not in ("extraction",) or layers[0] != "SandyLoam"):
                    continue
                for evz in (evzs if r["part"] == "extraction" else [0.15, 0.237]):
                    if r["reinit"] and evz != 0.15:
                        continue
                    if tier == "quick" and r["part"] == "potential" and (evz != 0.15 or layers[0] != "SandyLoam"):
                        continue
                    if r["part"] == "full" and (layers[0] != "SandyLoam" or evz != 0.237):
                        continue
                    out.append((f"{'/'.join(layers)}|{dzs}|{r['name']}|CCx={r['ccx']}|substeps={k}|evz={evz}", dict(layers=layers, dzs=dzs, k=k, evz=evz, **r)))
    return out


@harness("soil_evaporation", modules=["aquacrop.solution.soil_evaporation", "aquacrop.solution.evap_layer_water_content"],
         props=["C01", "C03", "C04", "C12", "C16", "C20"], configs=_configs, timeout_ms=10000, abstract_nl=True, exact_fallback=True,
         goals=["stage1", "stage2", "ponded-evaporation", "layer-expands"])
def h_evap(ctx, cfg):
    soil, base = build_profile(cfg["layers"], cfg["dzs"])
    prof = prof_for(ctx, base)
    n = len(cfg["dzs"])
    lay, cn, rew = soil_params(cfg["layers"][0]) if cfg["layers"][0] in ("SandyLoam", "Clay", "Sand", "Paddy", "SiltLoam") else (None, None, 9.0)
    zmin, zmax = 0.15, 0.30
    gs, method, mulch = cfg["gs"], cfg["method"], cfg["mulch"]
    part = cfg["part"]
    # 'potential' partitions: the profile is at field capacity (concrete) so that the extraction loops do not fork; the
    # extraction clauses for every state are the subject of the 'extraction' partitions (and of 'full' in the thorough tier)
    th = ctx.arr("th", n, lo=base.th_dry, hi=base.th_s) if part != "potential" else ctx.const_arr([float(x) for x in base.th_fc])
    et0 = ctx.real("et0", 0.0 if part == "extraction" else 0.1, 20)
    infl = ctx.real("Infl", -500, 300)
    rain = ctx.real("rain", 0, 300)
    irr = ctx.real("Irr", 0, 500) if method not in (0, 4) else 0.0
    wetsurf = ctx.real("WetSurf", 0, 100)
    f_mulch = ctx.real("f_mulch", 0, 1)
    mulch_pct = ctx.real("mulch_pct", 0, 100)
    ss = ctx.real("surface_storage", 0, 500)
    w_surf = ctx.real("w_surf", 0, rew) if part != "potential" else 0.0
    evz = ctx.real("evap_z", zmin, zmax) if cfg.get("evz") is None else cfg["evz"]
    w_st2 = ctx.real("w_stage_2", 0, 1)
    stage2 = ctx.bool("stage2")
    ccmax = poly(cfg["ccx"])
    cc = ctx.real("canopy_cover", 0, cfg["ccx"])
    cc_adj = ctx.real("canopy_cover_adj", 0, ccmax)      # = 1.72CC - CC^2 + 0.3CC^3 over 0<=CC<=CCx (over-approximated as an interval)
    ccx_act = ctx.real("ccx_act", 0, cfg["ccx"])
    ccx_w = ctx.real("ccx_w", 0, cfg["ccx"])
    premat = ctx.bool("premat_senes")
    e_pot_prev = ctx.real("e_pot_prev", 0, 30)
    senescence = 100
    dap = {"one": 1, "mid": 40, "late": 130, "zero": 0}[cfg["dap"]]
    tsc = 0 if (cfg["reinit"] and not gs) else 7
    off = False
    # potential partitions execute no sub-daily extraction step at all (k = 0): only the potential-evaporation section,
    # the ponded-water branch and the day-1 / wetting resets run
    steps = EvapSteps(20, cfg["k"] if part != "potential" else 0)
    calls = {"evz": set()}
    real_elwc = ML.evap_layer_water_content

    def elwc(th_, evz_, prof_):
        key = evz_.e.get_id() if isinstance(evz_, symx.SF) else evz_
        calls["evz"].add(key)
        if len(calls["evz"]) > 1 + cfg.get("exp_iters", 2):
            raise PathEnd("cut", "evaporation layer expanded more than the stated number of 1 mm iterations in one sub-step")
        return real_elwc(th_, evz_, prof_)

    snap = prof_snapshot(prof)
    th0 = list(th)
    before = storage(base, th0) + ss
    m0 = ctx.mark()

    def call(over=None, th_in=None):
        o = over or {}
        g = lambda name, cur: o.get(name, cur)
        calls["evz"].clear()
        tharr = ctx.const_arr(th0) if th_in is None else th_in
        with stubbed({"aquacrop.solution.soil_evaporation": {"evap_layer_water_content": elwc}}):
            return M.soil_evaporation(steps, off, tsc, prof, zmin, zmax, rew, 1.1, 50, 0.4, 4, 1, senescence, method, g("WetSurf", wetsurf),
                                      mulch, g("f_mulch", f_mulch), g("mulch_pct", mulch_pct), dap, w_surf, evz, stage2, tharr, 0, 0.0, 0.0,
                                      ccx_w, cc_adj, ccx_act, cc, premat, ss, w_st2, e_pot_prev, et0, infl, rain, irr, gs)
    (epot, thn, st2n, wst2n, wsurfn, ssn, evzn, es, espot) = call()
    after = storage(base, thn) + ssn
    ctx.out("Es", es); ctx.out("EsPot", espot); ctx.out("th", thn); ctx.out("ss", ssn); ctx.out("w_surf", wsurfn); ctx.out("evap_z", evzn)
    ctx.out("w_stage_2", wst2n)
    ctx.prove("C01:evaporation balance S'+ss'=S+ss-Es", approx(after, before - es, 1e-9))
    ctx.prove("C04:Es>=0", es >= -1e-12)
    ctx.prove("C04:EsPot>=0", espot >= -1e-12)
    ctx.prove("C04:Es<=EsPot", es <= espot + 1e-9)
    ctx.prove("C03:th within [dry,sat] after evaporation",
              And(*[And(thn[i] >= float(base.th_dry[i]) - 1e-12, thn[i] <= float(base.th_s[i]) + 1e-12) for i in range(n)]))
    ctx.prove("C03:0<=ponding'<=ponding", And(ssn >= -1e-12, ssn <= ss + 1e-12))
    ctx.prove("contract:evaporation-layer state stays in range",
              And(wsurfn >= -1e-12, wsurfn <= rew + 1e-12, evzn >= zmin - 1e-12, evzn <= zmax + 0.001 + 1e-12, wst2n >= 0, wst2n <= 1 + 1e-12))
    ctx.prove("contract:e_pot = EsPot", approx(epot, espot, 0))
    prove_prof_unchanged(ctx, prof, snap, "C12:soil_evaporation")
    # C20 ------------------------------------------------------------------------------------------------
    outs = [es, espot, ssn, wsurfn, evzn, wst2n] + list(thn)

    def rerun(alt):
        r = call(alt)
        return [r[7], r[8], r[5], r[4], r[6], r[3]] + list(r[1])
    if not mulch:
        ctx.prove_independent("C20:mulch factor has no effect without mulches", ["f_mulch"], outs, rerun, since=m0)
        ctx.prove_independent("C20:mulch cover has no effect without mulches", ["mulch_pct"], outs, rerun, since=m0)
    elif cfg["name"] in ("fallow-mulch", "season-mid-mulch", "season-mid-mulch-irrigated"):
        # second execution of the real function with mulches off (squares the path count: only in the two small regimes)
        ctx.prove("C20:mulch cover 0 or mulch factor 0 behaves as no mulches (potential evaporation not reduced)",
                  Implies(Or(mulch_pct <= 0, f_mulch <= 0), Or(ss >= 0.000001, approx(espot, _espot_nomulch(ctx, cfg, locals()), 1e-9))))
    if method in (0, 4) or True:
        if isinstance(irr, float):
            ctx.prove_independent("C20:wetted fraction has no effect without irrigation", ["WetSurf"], outs, rerun, since=m0)
    if ctx.feasible(And(es > 0.001, wsurfn < w_surf)):
        ctx.reach("stage1")
    if ctx.feasible(And(es > 0.001, w_surf <= 0, ss <= 0)):
        ctx.reach("stage2")
    if ctx.feasible(And(ss > 1, ssn < ss)):
        ctx.reach("ponded-evaporation")
    if ctx.feasible(evzn > evz + 0.0005):
        ctx.reach("layer-expands")


def _espot_nomulch(ctx, cfg, L):
    """potential evaporation of the same call with mulches switched off (re-run of the real function)"""
    calls = L["calls"]; calls["evz"].clear()
    M_ = M
    with stubbed({"aquacrop.solution.soil_evaporation": {"evap_layer_water_content": L["elwc"]}}):
        r = M_.soil_evaporation(L["steps"], L["off"], L["tsc"], L["prof"], L["zmin"], L["zmax"], L["rew"], 1.1, 50, 0.4, 4, 1, L["senescence"],
                                L["method"], L["wetsurf"], False, L["f_mulch"], L["mulch_pct"], L["dap"], L["w_surf"], L["evz"], L["stage2"],
                                ctx.const_arr(L["th0"]), 0, 0.0, 0.0, L["ccx_w"], L["cc_adj"], L["ccx_act"], L["cc"], L["premat"], L["ss"],
                                L["w_st2"], L["e_pot_prev"], L["et0"], L["infl"], L["rain"], L["irr"], L["gs"])
    return r[8]
