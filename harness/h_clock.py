"""C07 clock transitions (real check_model_is_finished + update_time on integer dates) and C09 stepping equivalence
(real AquaCropModel.run_model / _perform_timestep with the day solution as a recording stub)."""
import types
import numpy as np

import symx
from symx import harness, And, Or, Not, Implies, If, stubbed, SI
from .compose import Span

import aquacrop.timestep.update_time as MU
import aquacrop.timestep.check_if_model_is_finished as MF
import aquacrop.core as MCORE


class Day(int):
    """concrete day ordinal: differences of dates have .days, like pandas Timedelta (the symbolic SI has the same property)"""

    def __add__(self, o): return Day(int(self) + int(o))
    __radd__ = __add__

    def __sub__(self, o): return Day(int(self) - int(o))

    def __rsub__(self, o): return Day(int(o) - int(self))

    @property
    def days(self):
        return int(self)


def _clock_configs(tier):
    out = []
    for off in (False, True):
        for nseas in ((1, 2, 3) if tier == "quick" else (1, 2, 3, 4, 5)):
            for sc in range(-1, nseas):
                for hf in (False, True):
                    if sc == -1 and hf:
                        continue
                    out.append((f"off={int(off)}|seasons={nseas}|season={sc}|harvested={int(hf)}", dict(off=off, nseas=nseas, sc=sc, hf=hf)))
    return out


@harness("clock", modules=["aquacrop.timestep.update_time", "aquacrop.timestep.check_if_model_is_finished"], props=["C07", "C01", "C16"],
         configs=_clock_configs, goals=["jump-to-next-planting", "season-starts-next-day", "run-finishes"])
def h_clock(ctx, cfg):
    off, nseas, sc, hf = cfg["off"], cfg["nseas"], cfg["sc"], cfg["hf"]
    D = (lambda x: x) if ctx.symbolic else Day
    start = D(ctx.int("start", 0, 100000))
    n = ctx.int("n_days", 2, 250000)
    span = Span(start, n)
    end = start + n - 1
    P = [D(ctx.int(f"planting[{k}]", 0, 400000)) for k in range(nseas)]
    H = [D(ctx.int(f"harvest[{k}]", 0, 400000)) for k in range(nseas)]
    for k in range(nseas):
        ctx.assume(And(P[k] < H[k], P[k] >= start, P[k] < end))          # well-formed season table (derived from date strings: outside the claim)
        if k:
            ctx.assume(H[k - 1] < P[k])
    tsc = ctx.int("tsc", 0, 250000)
    ctx.assume(tsc + 1 < n)                                                # clock invariant: the current step has an end date
    today = start + tsc
    if sc >= 0:
        ctx.assume(P[sc] <= today)
        if not hf:
            ctx.assume(today < H[sc])                                      # INV: an unharvested season has not passed its harvest date
    if sc + 1 < nseas:
        ctx.assume(today < P[sc + 1])
    # the day's solution (contract proved on the real solution_single_time_step by harness 'timestep')
    if sc >= 0 and not hf:
        ends = ctx.bool("season_ends_today")
        hf2 = bool(Or(ends, today + 1 == H[sc]))
    else:
        hf2 = hf
    resets = []

    def reset_stub(clock, ic, ps, weather, crop):
        resets.append((clock.season_counter, clock.step_start_time))
        ic.harvest_flag = False
        ic.dap = 0
        return ic, ps
    clock = types.SimpleNamespace(model_is_finished=False, sim_off_season=off, season_counter=sc, n_seasons=nseas, time_step_counter=tsc,
                                  time_span=span, planting_dates=P, harvest_dates=H, step_start_time=today, step_end_time=today + 1,
                                  simulation_end_date=end)
    ic = types.SimpleNamespace(harvest_flag=hf2, dap=7)
    fin = MF.check_model_is_finished(clock.step_end_time, end, False, sc, nseas, hf2)
    fin = bool(fin) if not isinstance(fin, bool) else fin
    clock.model_is_finished = fin
    expected_fin = Or(today + 1 >= end, hf2 and sc == nseas - 1)
    ctx.prove("C07:the run finishes exactly on the day before the end date or at the last season's harvest", expected_fin if fin else Not(expected_fin))
    with stubbed({"aquacrop.timestep.update_time": {"reset_initial_conditions": reset_stub}}):
        c2, ic2, _ = MU.update_time(clock, ic, None, None, None)
    if fin:
        ctx.reach("run-finishes")
        ctx.prove("C07:a finished clock is not advanced", And(c2.time_step_counter == tsc, c2.season_counter == sc, len(resets) == 0))
        return
    t2 = c2.time_step_counter
    ctx.out("tsc_next", t2)
    jump = (hf2 is True) and (off is False) and (sc < nseas - 1)
    ctx.prove("C07:days are simulated in chronological order, each at most once", t2 > tsc)
    ctx.prove("C07:clock invariant preserved (step dates match the step index, next step has an end date)",
              And(c2.step_start_time == start + t2, c2.step_end_time == start + t2 + 1, t2 + 1 < n))
    if jump:
        ctx.reach("jump-to-next-planting")
        ctx.prove("C07:after harvest, with the off-season skipped, the run jumps straight to the next planting date",
                  And(c2.step_start_time == P[sc + 1], c2.season_counter == sc + 1, len(resets) == 1))
    else:
        ctx.prove("C07:otherwise no day is skipped", t2 == tsc + 1)
        starts = (sc + 1 < nseas) and bool(today + 1 == P[sc + 1]) if sc + 1 < nseas else False
        if starts:
            ctx.reach("season-starts-next-day")
        ctx.prove("C07:a season starts exactly on its planting date (state reset then, and only then)",
                  And(c2.season_counter == sc + 1, len(resets) == 1, (resets[0][1] == P[sc + 1]) if resets else False) if starts else And(c2.season_counter == sc, len(resets) == 0))
    sc2 = c2.season_counter
    ctx.prove("C07:season counter stays consistent with the dates",
              And(P[sc2] <= start + t2 if sc2 >= 0 else True, (start + t2 < P[sc2 + 1]) if sc2 + 1 < nseas else True))
    ctx.prove("C01:the state object is handed on unchanged unless a season starts", (ic2 is ic))


# ------------------------------------------------------------------------------------------------------------------ C09
class _WeatherSlice:
    def __init__(self, a, b):
        self.a = a; self.b = b

    def __iter__(self):
        for i in symx.core.SymRange(self.b - self.a) if isinstance(self.b - self.a, SI) else range(self.b - self.a):
            yield ("w", self.a + i)

    def __getitem__(self, i):
        return ("w", self.a + i)


class _Weather:
    def __getitem__(self, i):
        if isinstance(i, slice):
            return _WeatherSlice(i.start or 0, i.stop)
        return ("w", i)

    @property
    def values(self):
        return self


def _c09_configs(tier):
    out = []
    kmax = 3 if tier == "quick" else 8
    tmax = 5 if tier == "quick" else 12
    for ncalls in ((1, 2, 3) if tier == "quick" else (1, 2, 3, 4)):
        for jump_at in (None, 1):
            out.append((f"calls={ncalls}|kmax={kmax}|Tmax={tmax}|jump_at={jump_at}", dict(ncalls=ncalls, kmax=kmax, tmax=tmax, jump_at=jump_at)))
    return out


def _mk_model(trace, T, jump_at):
    m = object.__new__(MCORE.AquaCropModel)
    m._clock_struct = types.SimpleNamespace(model_is_finished=False, time_step_counter=0, step_end_time=None, simulation_end_date=None,
                                            season_counter=0, n_seasons=1, count=0)
    m._init_cond = ("state", 0)
    m._param_struct = "params"
    m._outputs = types.SimpleNamespace(water_flux="flux0", water_storage="stor0", crop_growth="growth0", final_stats="SUMMARY")
    m._weather = _Weather()
    m.crop = "crop"

    def solution(ic, ps, clock, wstep, outputs):
        trace.append(("solve", ic, clock.time_step_counter, wstep))
        return types.SimpleNamespace(harvest_flag=False, tag=("state", clock.count + 1)), ps, outputs

    def finished(step_end, sim_end, mif, sc, nseas, hf):
        return bool(m._clock_struct.count + 1 >= T)

    def upd(clock, new_cond, ps, weather, crop):
        clock.count += 1
        if clock.model_is_finished is False:
            clock.time_step_counter = clock.time_step_counter + (6 if (jump_at is not None and clock.count == jump_at + 1) else 1)
        trace.append(("update", clock.count, clock.model_is_finished))
        return clock, new_cond.tag, ps

    def outs(fin, f, s, g, steps_finished):
        trace.append(("outputs", fin, steps_finished))
        if fin is True or steps_finished is True:
            return ("DF", f), ("DF", s), ("DF", g)
        return False
    stubs = {"aquacrop.core": {"solution_single_time_step": solution, "check_model_is_finished": finished, "update_time": upd,
                               "outputs_when_model_is_finished": outs}}
    return m, stubs


@harness("run_model", modules=["aquacrop.core"], props=["C09", "C16"], configs=_c09_configs, goals=["finishes-inside-a-call", "stops-unfinished"])
def h_run(ctx, cfg):
    T = ctx.int("T_finish", 1, cfg["tmax"])
    ks = [ctx.int(f"num_steps[{i}]", 1, cfg["kmax"]) for i in range(cfg["ncalls"])]
    # run A: the partition
    trA = []
    mA, stubs = _mk_model(trA, T, cfg["jump_at"])
    done = 0
    flags = []
    with stubbed(stubs):
        for k in ks:
            before = mA._clock_struct.count
            if mA._clock_struct.model_is_finished is True:
                break
            mA.run_model(num_steps=k, initialize_model=False)
            info = mA.get_additional_information()
            res = mA.get_simulation_results()
            flags.append((mA._clock_struct.count, info["has_model_finished"], res))
    # run B: one uninterrupted run from the same start
    trB = []
    mB, stubsB = _mk_model(trB, T, cfg["jump_at"])
    with stubbed(stubsB):
        mB.run_model(till_termination=True, initialize_model=False)
    nA = mA._clock_struct.count
    ctx.out("transitions", nA)
    solvesA = [e for e in trA if e[0] == "solve"]
    solvesB = [e for e in trB if e[0] == "solve"]
    ctx.prove("C09:uninterrupted run performs exactly T day transitions", len(solvesB) == T if not isinstance(T, int) else len(solvesB) == T)
    ctx.prove("C09:step-wise run performs the same day transitions, in the same order, with the same state, step index and weather row",
              And(len(solvesA) <= len(solvesB), *[And(a[1] == b[1], a[2] == b[2], a[3][1] == b[3][1]) for a, b in zip(solvesA, solvesB)]))
    total = ks[0]
    for k in ks[1:]:
        total = total + k
    ctx.prove("C09:number of transitions = min(sum of step counts, T) (an overshooting count stops at termination)",
              nA == If(total < T, total, T) if True else True)
    for (cnt, fin_flag, res) in flags:
        fin_expected = cnt >= T
        ok = (fin_flag is True and res == "SUMMARY") if bool(fin_expected) else (fin_flag is False and res is False)
        ctx.prove("C09:model reports itself finished (and yields the summary) exactly from termination on", ok)
    if mA._clock_struct.model_is_finished is True:
        ctx.reach("finishes-inside-a-call")
        ctx.prove("C09:final state and tables equal those of the uninterrupted run",
                  And(mA._init_cond == mB._init_cond, mA._clock_struct.time_step_counter == mB._clock_struct.time_step_counter,
                      mA._outputs.water_flux == mB._outputs.water_flux, mA._outputs.crop_growth == mB._outputs.crop_growth))
    else:
        ctx.reach("stops-unfinished")
        ctx.prove("C09:unfinished: daily tables are not yet converted, state is the prefix state", And(mA._outputs.water_flux == "flux0", mA._init_cond == ("state", nA)))
