"""Leaf harness: real root_zone_water (contract used by the stubs), evap_layer_water_content."""
from symx import harness, And, Or, Not, Implies
from .common import build_profile, prof_for, approx, prof_snapshot, prove_prof_unchanged

import aquacrop.solution.root_zone_water as M


def _configs(tier):
    out = []
    profs = [(["SandyLoam"] * 2, [0.1, 0.2]), (["Sand", "Clay"], [0.1, 0.1])]
    if tier != "quick":
        profs += [(["Clay"] * 3, [0.1, 0.1, 0.1]), (["PaddyTop", "PaddyPan", "PaddyPan"], [0.05, 0.15, 0.2]), (["Loam"] * 2, [0.2, 0.2])]
    for layers, dzs in profs:
        for ztop in (0.1, 0.15):
            out.append((f"{'/'.join(layers)}|{dzs}|ztop={ztop}", {"layers": layers, "dzs": dzs, "ztop": ztop}))
    return out


@harness("root_zone_water", modules=["aquacrop.solution.root_zone_water"], props=["C03", "C12", "C16", "C13"], configs=_configs, round_enum=64,
         goals=["partial-compartment"])
def h_rzw(ctx, cfg):
    soil, base = build_profile(cfg["layers"], cfg["dzs"])
    prof = prof_for(ctx, base)
    n = len(cfg["dzs"])
    zsoil = float(base.dzsum[-1])
    th = ctx.arr("th", n, lo=base.th_dry, hi=base.th_s)
    zroot = ctx.real("z_root", 0, zsoil)
    zmin = ctx.real("Zmin", 0.05, zsoil)
    aer = ctx.real("Aer", 1, 15)
    snap = prof_snapshot(prof)
    th0 = list(th)
    out = M.root_zone_water(prof, zroot, th, max(cfg["ztop"], float(cfg["dzs"][0])), zmin, aer)    # Soil.z_top = max(z_top, dz[0]) as the Soil class sets it
    (wr, dr_zt, dr_rz, taw_zt, taw_rz, th_act, th_s, th_fc, th_wp, th_dry, th_aer) = out
    for k, v in zip("Wr Dr_Zt Dr_Rz TAW_Zt TAW_Rz thRZ_Act thRZ_S thRZ_FC thRZ_WP thRZ_Dry thRZ_Aer".split(), out):
        ctx.out(k, v)
    ctx.prove("C03,contract:Wr>=0", wr >= 0)
    ctx.prove("contract:TAW>0", And(taw_rz > 1e-3, taw_zt > 1e-3))
    ctx.prove("contract:Dr<=TAW", And(dr_rz <= taw_rz, dr_zt <= taw_zt))
    ctx.prove("contract:thRZ ordering", And(th_wp < th_fc, th_fc <= th_s, th_dry <= th_wp, th_aer < th_s, th_act <= th_s + 1e-3, th_act >= 0))
    ctx.prove("C12:root_zone_water leaves th untouched", And(*[a == b for a, b in zip(list(th), th0)]))
    prove_prof_unchanged(ctx, prof, snap, "C12:root_zone_water")
    if ctx.feasible(wr > 0):
        ctx.reach("partial-compartment")
