"""Leaf harness: real aquacrop.solution.rainfall_partition.rainfall_partition."""
from symx import harness, And, Or, Not, Implies
from .common import build_profile, prof_for, approx, prof_snapshot, prove_prof_unchanged, soil_params

import aquacrop.solution.rainfall_partition as M


def _configs(tier):
    out = []
    soils = [("SandyLoam", 46), ("Clay", 77)] if tier == "quick" else [("SandyLoam", 46), ("Clay", 77), ("Loam", 61), ("SiltClay", 72)]
    dzsets = [[0.1, 0.2]] if tier == "quick" else [[0.1, 0.2], [0.1, 0.1, 0.1]]
    for soil, cn in soils:
        for dzs in dzsets:
            for adj_cn in (1, 0):
                for pct in ((0, 25) if tier == "quick" else (-20, 0, 10, 25)):
                    if cn * (1 + pct / 100) > 100:
                        continue
                    for zmode in ("grid", "sym"):
                        if adj_cn == 0 and zmode == "sym":
                            continue
                        out.append((f"{soil}|{dzs}|adj_cn={adj_cn}|pct={pct}|zcn={zmode}",
                                    {"soil": soil, "cn": cn, "dzs": dzs, "adj_cn": adj_cn, "pct": pct, "zmode": zmode, "mgmt": "open"}))
        for mgmt in ("sr_inhb", "bunds", "lowbund"):
            out.append((f"{soil}|{mgmt}", {"soil": soil, "cn": cn, "dzs": [0.1, 0.2], "adj_cn": 1, "pct": 0, "zmode": "grid", "mgmt": mgmt}))
    return out


@harness("rainfall_partition", modules=["aquacrop.solution.rainfall_partition"], props=["C01", "C02", "C04", "C12", "C16", "C20"],
         configs=_configs, goals=["runoff>0", "wet-topsoil-raises-cn"])
def h_rain(ctx, cfg):
    n = len(cfg["dzs"])
    soil, base = build_profile([cfg["soil"]] * n, cfg["dzs"])
    prof = prof_for(ctx, base)
    P = ctx.real("P", 0, 300)
    th = ctx.arr("th", n, lo=base.th_dry, hi=base.th_s)
    dsub = ctx.int("day_submerged", 0, 10)
    mgmt = cfg["mgmt"]
    sr_inhb = mgmt == "sr_inhb"
    bunds = mgmt in ("bunds", "lowbund")
    if mgmt == "bunds":
        zb = ctx.real("z_bund", 0.001, 500)
    elif mgmt == "lowbund":
        zb = ctx.real("z_bund", 0, 0.00099)
    else:
        zb = ctx.real("z_bund", 0, 500)       # C20: bund height without bunds must not matter
    zsoil = float(base.dzsum[-1])
    if cfg["zmode"] == "sym":
        zcn = ctx.real("z_cn", 0.01, zsoil)     # C12: surface-layer depth off the compartment grid
    else:
        zcn = 0.3 if zsoil >= 0.3 else zsoil
    snap = prof_snapshot(prof)
    th0 = list(th)
    m0 = ctx.mark()
    ro, infl, dsub2 = M.rainfall_partition(P, th, dsub, sr_inhb, bunds, zb, float(cfg["pct"]), float(cfg["cn"]), cfg["adj_cn"], zcn, n, prof)
    ctx.out("Runoff", ro); ctx.out("Infl", infl)
    ctx.prove("C02:Runoff+Infl=P (rainfall partition)", approx(ro + infl, P, 1e-9))
    ctx.prove("C02,C04:0<=Runoff<=P", And(ro >= -1e-12, ro <= P + 1e-9))
    ctx.prove("C02:P=0 => Runoff=0", Implies(P <= 0, approx(ro, 0, 1e-12)))
    if sr_inhb or mgmt == "bunds":
        ctx.prove("C02:no curve-number runoff with bunds / inhibited runoff", approx(ro, 0, 1e-12))
    if not bunds:
        # C20: the bund height is a free variable here and must not influence anything
        def rerun(alt):
            p2 = prof_for(ctx, base)
            r = M.rainfall_partition(P, th, dsub, sr_inhb, bunds, alt["z_bund"], float(cfg["pct"]), float(cfg["cn"]), cfg["adj_cn"], zcn, n, p2)
            return [r[0], r[1]]
        ctx.prove_independent("C20:bund height has no effect without bunds", ["z_bund"], [ro, infl], rerun, since=m0)
    ctx.prove("C12:rainfall_partition leaves th untouched", And(*[a == b for a, b in zip(list(th), th0)]))
    prove_prof_unchanged(ctx, prof, snap, "C12:rainfall_partition")
    if ctx.feasible(ro > 0.001):
        ctx.reach("runoff>0")
    if cfg["adj_cn"] == 1 and ctx.feasible(And(ro > 0.001, P < 0.05 * (25400 / float(cfg["cn"] * (1 + cfg["pct"] / 100)) - 254))):
        ctx.reach("wet-topsoil-raises-cn")
