"""C05/C06 leaf harnesses on the real crop-growth functions: biomass_accumulation, HIref_current_day, harvest_index (+ real
HIadj_*), root_development, canopy_cover (+ real cc_development, cc_required_time, adjust_CCx, update_CCx_CDC)."""
import copy
import types
import numpy as np
import symx
from symx import harness, And, Or, Not, Implies, If, stubbed
from .common import build_profile, prof_for, approx, stub_root_zone_water, prof_snapshot, prove_prof_unchanged
from .init_model import season_crop

import aquacrop.solution.biomass_accumulation as MB
import aquacrop.solution.HIref_current_day as MH
import aquacrop.solution.harvest_index as MHI
import aquacrop.solution.root_development as MR
import aquacrop.solution.canopy_cover as MCC

QUICK = ["Maize", "Wheat", "Potato", "Cotton", "Tomato", "Quinoa", "PaddyRice", "SugarBeet"]
ALL_CD = ["Barley", "Cotton", "DryBean", "Maize", "PaddyRice", "Potato", "Quinoa", "Sorghum", "Soybean", "SugarBeet", "SugarCane",
          "Sunflower", "Tomato", "Wheat", "Tef", "Cassava", "Default"]


def crops(tier):
    return QUICK if tier == "quick" else ALL_CD


def _bio_configs(tier):
    return [(f"{c}|gs={int(gs)}", dict(crop=c, gs=gs)) for c in crops(tier) for gs in (True, False) if gs or c == "Maize"]


@harness("biomass_accumulation", modules=["aquacrop.solution.biomass_accumulation"], props=["C05", "C06", "C16"], configs=_bio_configs,
         goals=["yield-formation-switch"])
def h_bio(ctx, cfg):
    crop = season_crop(cfg["crop"])
    gs = cfg["gs"]
    dap = ctx.int("dap", 1, 400)
    hi_ref = ctx.real("hi_ref", 0, float(crop.HI0))
    pct = ctx.real("pct_lag_phase", 0, 100)
    B = ctx.real("biomass", 0, 1e5); Bns = ctx.real("biomass_ns", 0, 1e5)
    tr = ctx.real("Tr", 0, 40); trp = ctx.real("TrPot_NS", 0, 40); et0 = ctx.real("et0", 0.1, 20)
    # INV (proved by harness HIref_current_day): the reference harvest index is positive only after yield formation started
    ctx.assume(Implies(hi_ref > 0, dap - int(crop.HIstartCD) - 1 > 0))
    b2, bns2 = MB.biomass_accumulation(crop, dap, 0, hi_ref, pct, B, Bns, tr, trp, et0, gs)
    ctx.out("biomass", b2); ctx.out("biomass_ns", bns2)
    if not gs:
        ctx.prove("C05:biomass is zero outside the growing season", And(approx(b2, 0, 0), approx(bns2, 0, 0)))
        return
    ctx.prove("C05:biomass never decreases within a season", And(b2 >= B - 1e-9, bns2 >= Bns - 1e-9))
    wp = float(crop.WP) * float(crop.fCO2)
    lo = wp * (float(crop.WPy) / 100)
    ctx.prove("C06:daily biomass gain = WP*fCO2*k*Tr/ET0 with WPy/100 <= k <= 1",
              And((b2 - B) * et0 <= wp * tr + 1e-7, (b2 - B) * et0 >= lo * tr - 1e-7))
    ctx.prove("C06:no-stress biomass gain from potential transpiration", And((bns2 - Bns) * et0 <= wp * trp + 1e-7, (bns2 - Bns) * et0 >= lo * trp - 1e-7))
    if ctx.feasible(And(tr > 1, (b2 - B) * et0 < wp * tr - 1e-3)):
        ctx.reach("yield-formation-switch")


def _hiref_configs(tier):
    return [(f"{c}", dict(crop=c)) for c in crops(tier)]


@harness("HIref_current_day", modules=["aquacrop.solution.HIref_current_day"], props=["C05", "C16"], configs=_hiref_configs,
         goals=["yield-formation"])
def h_hiref(ctx, cfg):
    crop = season_crop(cfg["crop"])
    hi0 = float(crop.HI0)
    dap = ctx.int("dap", 2, 400)
    cc = ctx.real("canopy_cover", 0, 1); ccp = ctx.real("cc_prev", 0, 1); ccxw = ctx.real("ccx_w", 0, 1)
    yf = ctx.bool("yield_form")
    pct0 = ctx.real("pct_lag_prev", 0, 100)
    hiprev = ctx.real("hi_ref_prev", 0, hi0)
    # two consecutive days: the reference index of day dap-1 computed by the real function is the previous state of day dap
    h1, yf1, p1 = MH.HIref_current_day(hiprev, hi0, dap - 1, 0, yf, pct0, cc, ccp, ccxw, crop, True)
    h2, yf2, p2 = MH.HIref_current_day(h1, hi0, dap, 0, yf1, p1, cc, ccp, ccxw, crop, True)
    ctx.out("hi_ref", h2)
    ctx.prove("C05:0 <= reference harvest index <= HI0", And(h2 >= -1e-12, h2 <= hi0 + 1e-12, h1 >= -1e-12, h1 <= hi0 + 1e-12))
    ctx.prove("C05:reference harvest index never decreases from one day to the next", h2 >= h1 - 1e-9)
    ctx.prove("contract:pct_lag_phase in [0,100]", And(p2 >= 0, p2 <= 100 + 1e-9))
    ctx.prove("contract:reference harvest index is zero until yield formation has started", Implies(dap - int(crop.HIstartCD) - 1 <= 0, h2 == 0))
    h3, _, _ = MH.HIref_current_day(h2, hi0, dap, 0, yf2, p2, cc, ccp, ccxw, crop, False)
    ctx.prove("C05:reference harvest index is zero outside the growing season", approx(h3, 0, 0))
    if ctx.feasible(And(h2 > 0.01, h2 < hi0 - 0.01)):
        ctx.reach("yield-formation")


def _hi_configs(tier):
    out = []
    for c in (["Maize", "Wheat", "Potato"] if tier == "quick" else crops(tier)):
        for phase in ("flowering", "late"):
            for frac in ((0.5, 1.0) if tier == "quick" else (0.05, 0.3, 0.6, 0.9, 1.0)):
                for fpol in ("one", "sym"):
                    if fpol == "sym" and frac != 1.0:
                        continue
                    out.append((f"{c}|{phase}|hi_ref={frac}*HI0|f_pol={fpol}", dict(crop=c, phase=phase, frac=frac, fpol=fpol)))
    return out


@harness("harvest_index", modules=["aquacrop.solution.harvest_index", "aquacrop.solution.HIadj_pre_anthesis", "aquacrop.solution.HIadj_post_anthesis",
                                   "aquacrop.solution.HIadj_pollination"], props=["C05", "C16"], configs=_hi_configs, timeout_ms=10000, abstract_nl=True,
         goals=["adjusted-index-computed"])
def h_hi(ctx, cfg):
    crop = season_crop(cfg["crop"])
    soil, base = build_profile(["SandyLoam"] * 2, [0.1, 0.2])
    prof = prof_for(ctx, base)
    hi0 = float(crop.HI0)
    histart = int(crop.HIstartCD)
    if cfg["phase"] == "flowering":
        dap = ctx.int("dap", histart + 1, histart + 1 + max(int(crop.FloweringCD), 1) if crop.CropType == 3 else histart + 12)
    else:
        dap = ctx.int("dap", histart + 2, int(crop.MaturityCD) + 2)
    ic = types.SimpleNamespace()
    ic.th = ctx.const_arr([float(x) for x in base.th_fc]); ic.z_root = 0.2; ic.t_early_sen = 0
    ic.dap = dap; ic.delayed_cds = 0
    ic.hi_ref = cfg["frac"] * hi0      # reference index from a concrete grid: keeps HImult*HIref linear (HIref = HI0 is the extreme case of the cap)
    ic.harvest_index = ctx.real("harvest_index_prev", 0, hi0)
    ctx.assume(ic.harvest_index <= ic.hi_ref)                     # INV (relational): yesterday's index never exceeds today's reference
    cap = hi0 * (1 + max(float(crop.dHI0), 0) / 100)
    ic.harvest_index_adj = ctx.real("harvest_index_adj_prev", 0, cap)
    ic.yield_form = ctx.bool("yield_form")
    ic.pre_adj = ctx.bool("pre_adj")
    ic.f_pre = ctx.real("f_pre", 0, 1 + max(float(crop.dHI_pre), 0) / 100)
    # f_pol = 1 (pollination complete): HImax = HI0 is concrete and the cap clause is linear. With f_pol symbolic the branch
    # HIadj = HImult*HImax multiplies two symbolic factors; the cap clause is not claimed there (DESIGN.md C05)
    ic.f_pol = 1.0 if cfg["fpol"] == "one" else ctx.real("f_pol", 0, 1)
    ic.f_post = ctx.real("f_post", 0, 10)
    ic.fpost_upp = ctx.real("fpost_upp", 0, 10); ic.fpost_dwn = ctx.real("fpost_dwn", 0, 10)
    ic.s_cor1 = ctx.real("s_cor1", 0, 50); ic.s_cor2 = ctx.real("s_cor2", 0, 50)
    ic.biomass = ctx.real("biomass", 0.1, 1e5); ic.biomass_ns = ctx.real("biomass_ns", 0.1, 1e5)
    ctx.assume(ic.biomass <= ic.biomass_ns)
    ic.canopy_cover = ctx.real("canopy_cover", 0, float(crop.CCx))
    et0 = ctx.real("et0", 0.1, 20); tmax = ctx.real("Tmax", -30, 60); tmin = ctx.real("Tmin", -30, 60)
    hi_prev = ic.harvest_index

    def ws(*a):
        return tuple(ctx.fresh_real(f"Ks_{k}", 0, 1) for k in ("exp", "sto", "sen", "pol", "sto_lin"))

    def ts(crop_, tx, tn):
        return ctx.fresh_real("Kst_PolH", 0, 1), ctx.fresh_real("Kst_PolC", 0, 1)
    with stubbed({"aquacrop.solution.harvest_index": {"root_zone_water": stub_root_zone_water, "water_stress": ws, "temperature_stress": ts}}):
        nc = MHI.harvest_index(prof, 0.1, crop, ic, et0, tmax, tmin, True)
    ctx.out("harvest_index", nc.harvest_index); ctx.out("harvest_index_adj", nc.harvest_index_adj)
    ctx.prove("C05:harvest index never decreases and never exceeds the reference HI0", And(nc.harvest_index >= hi_prev - 1e-12, nc.harvest_index <= hi0 + 1e-12))
    if cfg["fpol"] == "one":
        ctx.prove("C05:adjusted harvest index <= HI0*(1+dHI0/100)", nc.harvest_index_adj <= cap + 1e-9)
    ctx.prove("C05:pollination factor stays in [0,1]", And(nc.f_pol >= 0, nc.f_pol <= 1))
    if ctx.feasible(nc.harvest_index_adj > 0.001):
        ctx.reach("adjusted-index-computed")
    with stubbed({"aquacrop.solution.harvest_index": {"root_zone_water": stub_root_zone_water, "water_stress": ws, "temperature_stress": ts}}):
        nc2 = MHI.harvest_index(prof, 0.1, crop, nc, et0, tmax, tmin, False)
    ctx.prove("C05:harvest index is zero outside the growing season", And(approx(nc2.harvest_index, 0, 0), approx(nc2.harvest_index_adj, 0, 0)))


def _root_configs(tier):
    out = []
    cs = ["Maize", "Wheat", "Potato"] if tier == "quick" else crops(tier)
    for c in cs:
        for prof in ("uniform", "restrictive"):
            for wt in (0, 1):
                if tier == "quick" and wt == 1 and c != "Maize":
                    continue
                for frac in ((0.1, 0.5, 1.02) if tier == "quick" else (0.03, 0.1, 0.3, 0.5, 0.8, 1.0, 1.02)):
                    for pen in ([100.0] if prof == "uniform" else ([30.0, 2.0] if tier == "quick" else [80.0, 30.0, 2.0, 0.0])):
                        out.append((f"{c}|{prof}|pen={pen}|wt={wt}|t={frac}*MaxRooting", dict(crop=c, prof=prof, wt=wt, frac=frac, pen=pen)))
    return out


@harness("root_development", modules=["aquacrop.solution.root_development"], props=["C05", "C12", "C16", "C19"], configs=_root_configs,
         timeout_ms=20000, goals=["roots-deepen", "table-limits-roots"])
def h_root(ctx, cfg):
    crop = copy.copy(season_crop(cfg["crop"]))
    layers = ["SandyLoam", "SandyLoam", "Clay"] if cfg["prof"] == "uniform" else ["SandyLoam", "TightClay", "TightClay"]
    dzs = [0.3, 0.6, 1.5]
    soil, base = build_profile(layers, dzs)
    prof = prof_for(ctx, base)
    if cfg["prof"] == "restrictive":
        pen = cfg.get("pen", 30.0)       # penetrability of the subsoil from a concrete grid (keeps the layer arithmetic concrete)
        prof.Penetrability = ctx.const_arr([100.0, pen, pen / 2])
    zmin, zmax = float(crop.Zmin), float(crop.Zmax)
    dap = max(2, int(round(cfg["frac"] * float(crop.MaxRooting if crop.CalendarType == 1 else crop.MaxRootingCD))))   # time from a concrete grid (stated bound)
    zprev = ctx.real("z_root_prev", zmin, zmax)
    tr_ratio = ctx.real("tr_ratio", 0, 1)
    th = ctx.arr("th", 3, lo=base.th_dry, hi=base.th_s)
    cc = ctx.real("canopy_cover", 0, 1); ccns = ctx.real("canopy_cover_ns", 0, 1)
    germ = ctx.bool("germination")
    rcor = ctx.real("r_cor", 1, 50); tpot = ctx.real("t_pot", 0, 30)
    zgw = ctx.real("z_gw", 0.01, 40)
    snap = prof_snapshot(prof)
    # potential depth reached the day before (real function, no stress, deep table): INV  z_root_prev <= that
    zpot_prev, _ = MR.root_development(crop, prof, dap - 1, zmin, 0, 0.0, 0.0, 1.0, ctx.const_arr([float(x) for x in base.th_fc]), 0.5, 0.5, True, 1.0, 1.0, 99.0, 0.0, True, 0)
    z2, rc2 = MR.root_development(crop, prof, dap, zprev, 0, 0.0, 0.0, tr_ratio, th, cc, ccns, germ, rcor, tpot, zgw, 0.0, True, cfg["wt"])
    ctx.out("z_root", z2); ctx.out("r_cor", rc2)
    ctx.prove("C05:Zmin <= rooting depth", z2 >= zmin - 1e-12)
    ctx.prove("C05:rooting depth <= Zmax (from a depth not beyond yesterday's potential depth)", Implies(zprev <= zpot_prev, z2 <= zmax + 1e-9))
    if cfg["wt"] == 1:
        ctx.prove("C05,C19:roots never reach below the water table (unless it is shallower than Zmin)", z2 <= If(zgw > zmin, zgw, zmin) + 1e-12)
        ctx.prove("C05:rooting depth shrinks only when the water table forces it", Or(z2 >= zprev - 1e-9, approx(z2, If(zgw > zmin, zgw, zmin), 1e-12)))
        if ctx.feasible(z2 < zprev - 0.001):
            ctx.reach("table-limits-roots")
    else:
        ctx.prove("C05:rooting depth never shrinks without a water table", z2 >= zprev - 1e-9)
    ctx.prove("contract:r_cor>=1", rc2 >= 1 - 1e-12)
    prove_prof_unchanged(ctx, prof, snap, "C12:root_development")
    z3, _ = MR.root_development(crop, prof, dap, z2, 0, 0.0, 0.0, tr_ratio, th, cc, ccns, germ, rcor, tpot, zgw, 0.0, False, cfg["wt"])
    ctx.prove("C05:rooting depth is zero outside the growing season", approx(z3, 0, 0))
    if ctx.feasible(z2 > zprev + 0.001):
        ctx.reach("roots-deepen")


# ---------------------------------------------------------------------------------------------------------------- canopy
def _cc_configs(tier):
    out = []
    cs = ["Maize", "Cotton"] if tier == "quick" else ["Maize", "Cotton", "Wheat", "Potato", "SugarBeet", "PaddyRice", "Tomato", "Quinoa"]
    for c in cs:
        for phase in ("pre-emergence", "growth", "growth-protected", "mid", "decline", "decline-earlysen", "off-season"):
            out.append((f"{c}|{phase}", dict(crop=c, phase=phase)))
    return out


@harness("canopy_cover", modules=["aquacrop.solution.canopy_cover", "aquacrop.solution.cc_development", "aquacrop.solution.cc_required_time",
                                  "aquacrop.solution.adjust_CCx", "aquacrop.solution.update_CCx_CDC"], props=["C05", "C12", "C16"],
         configs=_cc_configs, abstract_nl=True, timeout_ms=10000, goals=["canopy-grows", "canopy-declines"])
def h_canopy(ctx, cfg):
    crop = season_crop(cfg["crop"])
    soil, base = build_profile(["SandyLoam"] * 2, [0.1, 0.2])
    prof = prof_for(ctx, base)
    ccx, cc0 = float(crop.CCx), float(crop.CC0)
    ph = cfg["phase"]
    em, cde, sen, mat = int(crop.Emergence), int(crop.CanopyDevEnd), int(crop.Senescence), int(crop.Maturity)
    rng = {"pre-emergence": (1, max(em - 1, 1)), "growth": (em, cde - 1), "growth-protected": (em, cde - 1), "mid": (cde + 1, sen - 1),
           "decline": (sen, mat), "decline-earlysen": (sen + 1, mat), "off-season": (1, 1)}[ph]
    dap = ctx.int("dap", rng[0], max(rng[0], rng[1]))
    gs = ph != "off-season"
    ic = types.SimpleNamespace()
    ic.dap = dap; ic.delayed_cds = 0; ic.gdd_cum = 0.0; ic.delayed_gdds = 0.0
    ic.th = ctx.const_arr([float(x) for x in base.th_fc]); ic.z_root = 0.2
    ic.canopy_cover_ns = ctx.real("canopy_cover_ns", 0, ccx)
    ic.canopy_cover = ctx.real("canopy_cover", 0, ccx)
    ctx.assume(ic.canopy_cover <= ic.canopy_cover_ns)
    ic.protected_seed = ph == "growth-protected"
    ic.ccx_act = ctx.real("ccx_act", 0, ccx); ic.ccx_act_ns = ctx.real("ccx_act_ns", 0, ccx)
    ic.ccx_w = ctx.real("ccx_w", 0, ccx); ic.ccx_w_ns = ctx.real("ccx_w_ns", 0, ccx)
    ctx.assume(And(ic.canopy_cover <= ic.ccx_act, ic.canopy_cover_ns <= ic.ccx_act_ns)) if ph in ("mid", "decline", "decline-earlysen") else None
    ic.crop_dead = False
    ic.t_early_sen = ctx.int("t_early_sen", 1, 60) if ph == "decline-earlysen" else 0
    ic.ccx_early_sen = ctx.real("ccx_early_sen", 0, ccx)
    ic.cc0_adj = ctx.real("cc0_adj", cc0 * 1e-3, cc0)
    ic.premat_senes = False
    ic.cc_prev = 0.0; ic.canopy_cover_adj = 0.0; ic.canopy_cover_adj_ns = 0.0
    cc_prev_state = ic.canopy_cover
    et0 = ctx.real("et0", 0.1, 20)
    snap = prof_snapshot(prof)

    def ws(*a):
        return tuple(ctx.fresh_real(f"Ks_{k}", 0, 1) for k in ("exp", "sto", "sen", "pol", "sto_lin"))
    with stubbed({"aquacrop.solution.canopy_cover": {"root_zone_water": stub_root_zone_water, "water_stress": ws}}):
        nc = MCC.canopy_cover(crop, prof, 0.1, ic, 1.0, et0, gs)
    ctx.out("canopy_cover", nc.canopy_cover); ctx.out("canopy_cover_ns", nc.canopy_cover_ns)
    if not gs:
        ctx.prove("C05:canopy cover is zero outside the growing season", And(approx(nc.canopy_cover, 0, 0), approx(nc.canopy_cover_ns, 0, 0), approx(nc.canopy_cover_adj, 0, 0)))
        return
    finite = lambda v: not isinstance(v, symx.SNaN)
    ctx.prove("C05:canopy cover and its companions are finite (no NaN)", finite(nc.canopy_cover) and finite(nc.canopy_cover_ns) and finite(nc.ccx_act) and finite(nc.cc0_adj))
    if finite(nc.canopy_cover) and finite(nc.canopy_cover_ns):
        ctx.prove("C05:canopy cover >= 0", nc.canopy_cover >= -1e-12)
        ctx.prove("C05:canopy cover never exceeds the no-stress canopy", nc.canopy_cover <= nc.canopy_cover_ns + 1e-12)
        if ph != "decline-earlysen":
            # recovery from early senescence after the start of the senescence stage re-fits the decline curve through
            # yesterday's cover (update_CCx_CDC): exp-of-exp arithmetic that the abstraction cannot bound - outside the claim
            ctx.prove("C05:canopy cover <= CCx", nc.canopy_cover <= ccx + 1e-9)
            ctx.prove("C05:no-stress canopy <= CCx", nc.canopy_cover_ns <= ccx + 1e-9)
            ctx.prove("contract:ccx_act, ccx_w within [0, CCx]; cc0_adj within (0, CC0]",
                      And(nc.ccx_act >= -1e-12, nc.ccx_act <= ccx + 1e-9, nc.ccx_w >= -1e-12, nc.ccx_w <= ccx + 1e-9, nc.cc0_adj <= cc0 + 1e-12))
        ctx.prove("contract:cc_prev records yesterday's canopy cover", nc.cc_prev == cc_prev_state)
        if ctx.feasible(nc.canopy_cover > cc_prev_state + 1e-4):
            ctx.reach("canopy-grows")
        if ctx.feasible(nc.canopy_cover < cc_prev_state - 1e-4):
            ctx.reach("canopy-declines")
    prove_prof_unchanged(ctx, prof, snap, "C12:canopy_cover")


@harness("canopy_advection", modules=["aquacrop.solution.canopy_cover"], props=["C04", "C05"], configs=lambda tier: [(f"CCx={x}", dict(ccx=x)) for x in (0.75, 0.96, 0.98, 0.99)],
         timeout_ms=20000)
def h_advection(ctx, cfg):
    """mid-season, no stress: canopy cover is carried over unchanged, so canopy_cover_adj is the micro-advection polynomial of a
    symbolic canopy cover (exact arithmetic: one cubic in one variable)"""
    crop = copy.copy(season_crop("Maize"))
    crop.CCx = cfg["ccx"]
    soil, base = build_profile(["SandyLoam"] * 2, [0.1, 0.2])
    prof = prof_for(ctx, base)
    ccx = cfg["ccx"]
    ic = types.SimpleNamespace()
    ic.dap = int(crop.CanopyDevEnd) + 3; ic.delayed_cds = 0; ic.gdd_cum = 0.0; ic.delayed_gdds = 0.0
    ic.th = ctx.const_arr([float(x) for x in base.th_fc]); ic.z_root = 0.2
    ic.canopy_cover = ctx.real("canopy_cover", 0, ccx); ic.canopy_cover_ns = ctx.real("canopy_cover_ns", 0, ccx)
    ctx.assume(ic.canopy_cover <= ic.canopy_cover_ns)
    ic.protected_seed = False; ic.ccx_act = ccx; ic.ccx_act_ns = ccx; ic.ccx_w = 0.0; ic.ccx_w_ns = 0.0; ic.crop_dead = False
    ic.t_early_sen = 0; ic.ccx_early_sen = 0.0; ic.cc0_adj = float(crop.CC0); ic.premat_senes = False
    ic.cc_prev = 0.0; ic.canopy_cover_adj = 0.0; ic.canopy_cover_adj_ns = 0.0

    def ws(*a):
        return (1.0, 1.0, 1.0, 1.0, 1.0)
    with stubbed({"aquacrop.solution.canopy_cover": {"root_zone_water": stub_root_zone_water, "water_stress": ws}}):
        nc = MCC.canopy_cover(crop, prof, 0.1, ic, 1.0, 5.0, True)
    top = 1.72 * ccx - ccx ** 2 + 0.3 * ccx ** 3
    ctx.out("canopy_cover_adj", nc.canopy_cover_adj)
    ctx.prove("C04,contract:canopy cover adjusted for micro-advection within [0, 1.72CCx-CCx^2+0.3CCx^3]",
              And(nc.canopy_cover_adj >= -1e-12, nc.canopy_cover_adj <= top + 1e-12, nc.canopy_cover_adj_ns >= -1e-12, nc.canopy_cover_adj_ns <= top + 1e-12))
    ctx.prove("C05:mid-season canopy cover carried over unchanged", And(nc.canopy_cover == ic.canopy_cover))
