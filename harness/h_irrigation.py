"""Leaf harness: real irrigation() (C13 strategy contracts, C20 inertness, C06 running total) with root_zone_water stubbed
by its contract; real pre_irrigation()."""
import types
import numpy as np
from symx import harness, And, Or, Not, Implies, If, stubbed, sym_max, sym_min
from .common import build_profile, prof_for, storage, approx, prof_snapshot, prove_prof_unchanged, stub_root_zone_water

import aquacrop.solution.irrigation as M
import aquacrop.solution.pre_irrigation as MP


def _configs(tier):
    out = []
    for method in range(6):
        for gs in (True, False):
            stages = (1, 3) if (method == 1 and tier == "quick") else ((0, 1, 2, 3, 4) if method == 1 else (2,))
            for stage in stages:
                if not gs and (stage != stages[0]):
                    continue
                out.append((f"method={method}|gs={int(gs)}|stage={stage}", {"method": method, "gs": gs, "stage": stage}))
    return out


PARAMS = {0: [], 1: ["SMT[0]", "SMT[1]", "SMT[2]", "SMT[3]", "AppEff", "MaxIrr"], 2: ["IrrInterval", "AppEff", "MaxIrr"],
          3: ["Schedule[3]", "MaxIrr"], 4: [], 5: ["depth", "MaxIrr"]}
ALLP = ["SMT[0]", "SMT[1]", "SMT[2]", "SMT[3]", "AppEff", "MaxIrr", "IrrInterval", "Schedule[3]", "depth"]


@harness("irrigation", modules=["aquacrop.solution.irrigation"], props=["C04", "C06", "C12", "C13", "C16", "C20"], configs=_configs,
         goals=["irrigation-applied", "season-cap-binds"])
def h_irrigation(ctx, cfg):
    method, gs, stage = cfg["method"], cfg["gs"], cfg["stage"]
    soil, base = build_profile(["SandyLoam"] * 2, [0.1, 0.2])
    prof = prof_for(ctx, base)
    th = ctx.arr("th", 2, lo=base.th_dry, hi=base.th_s)
    smt = ctx.arr("SMT", 4, lo=0, hi=100)
    eff = ctx.real("AppEff", 0, 100)
    maxirr = ctx.real("MaxIrr", 0, 500)
    interval = ctx.int("IrrInterval", 1, 60)
    sched = ctx.arr("Schedule", 6, lo=0, hi=500)
    depth = ctx.real("depth", 0, 500)
    maxseason = ctx.real("MaxIrrSeason", 0, 1e4)
    irr_cum = ctx.real("irr_cum", 0, 1e4)
    ctx.assume(irr_cum <= maxseason)
    e_pot = ctx.real("e_pot", 0, 30)
    t_pot = ctx.real("t_pot", 0, 30)
    zroot = ctx.real("z_root", 0, 0.3)
    dap = ctx.int("dap", 1, 400) if gs else 0
    if gs and stage == 0:
        ctx.assume(dap == 1)      # growth_stage is 0 only on the first day (reset), fixed up by the code itself
    rain = ctx.real("rain", 0, 300)
    runoff = ctx.real("runoff", 0, 300)
    ctx.assume(runoff <= rain)
    crop = types.SimpleNamespace(Zmin=0.1, Aer=5.0)
    tsc = 3
    m0 = ctx.mark()
    rz = {}

    def rzw(*a):
        if "out" not in rz:          # one draw per harness run: re-runs (C20) see the same root-zone values
            rz["out"] = stub_root_zone_water(*a)
        return rz["out"]

    def call(over=None):
        o = over or {}
        g = lambda name, cur: o.get(name, cur)
        smt2 = ctx.const_arr([g(f"SMT[{i}]", smt[i]) for i in range(4)])
        sc2 = ctx.const_arr([g(f"Schedule[{i}]", sched[i]) for i in range(6)])
        with stubbed({"aquacrop.solution.irrigation": {"root_zone_water": rzw}}):
            return M.irrigation(method, smt2, g("AppEff", eff), g("MaxIrr", maxirr), g("IrrInterval", interval), sc2, g("depth", depth),
                                maxseason, stage, irr_cum, e_pot, t_pot, zroot, th, dap, tsc, crop, prof, 0.1, gs, rain, runoff)
    sched_snapshot = list(sched)
    smt_snapshot = list(smt)
    depl, taw, cum2, irr = M_out = call()
    # second execution on the very arrays of the harness (call() hands the function copies): frame clause for the schedule / thresholds
    with stubbed({"aquacrop.solution.irrigation": {"root_zone_water": rzw}}):
        M.irrigation(method, smt, eff, maxirr, interval, sched, depth, maxseason, stage, irr_cum, e_pot, t_pot, zroot, th, dap, tsc, crop, prof, 0.1, gs, rain, runoff)
    ctx.prove("C12:irrigation() does not write the schedule or the thresholds it is given",
              And(*[a is b or a == b for a, b in zip(list(sched), sched_snapshot)], *[a is b or a == b for a, b in zip(list(smt), smt_snapshot)]))
    ctx.out("Irr", irr); ctx.out("irr_cum", cum2); ctx.out("depletion", depl); ctx.out("taw", taw)
    ctx.prove("C04,C13:Irr>=0", irr >= 0)
    ctx.prove("C06,C13:irr_cum'=irr_cum+Irr in season, 0 outside", approx(cum2, (irr_cum + irr) if gs else 0, 1e-9))
    if not gs:
        ctx.prove("C04,C13:no irrigation outside the growing season", approx(irr, 0, 0))
        return
    ctx.prove("C04,C13:seasonal total never exceeds MaxIrrSeason (INV irr_cum <= MaxIrrSeason is preserved)", cum2 <= maxseason + 1e-9)
    ctx.prove("C13:single application <= MaxIrr", irr <= maxirr + 1e-12)
    # reference model written from the statement ---------------------------------------------------------------
    (wr, dr_zt, dr_rz, taw_zt, taw_rz, th_act, th_s, th_fc, th_wp, th_dry, th_aer) = rz["out"]
    rootdepth = sym_max(zroot, crop.Zmin)
    abvfc = If(th_act > th_fc, (th_act - th_fc) * 1000 * rootdepth, 0)
    depl_ref = dr_rz + (t_pot + e_pot - rain + runoff - abvfc)
    effadj = ((100 - eff) + 100) / 100
    req = sym_max(0, depl_ref) * effadj
    if method in (0, 4):
        want = 0
        ctx.prove("C13:rainfed / net irrigation apply no surface irrigation", approx(irr, 0, 0))
    elif method == 1:
        st = 1 if stage == 0 else stage
        smt_eff = If(dap == 1, smt[0], smt[st - 1])     # the first day of a season is always stage 1
        trig = (depl_ref / taw_rz) > 1 - smt_eff / 100
        want = If(trig, sym_min(maxirr, req), 0)
        ctx.prove("C13:threshold irrigation only when depletion exceeds the stage's allowable depletion", Implies(irr > 0, trig))
    elif method == 2:
        on = ((dap - 1) % interval) == 0
        want = If(on, sym_min(maxirr, req), 0)
        ctx.prove("C13:interval irrigation only on days 1,1+k,1+2k..", Implies(irr > 0, on))
    elif method == 3:
        want = sym_min(maxirr, sched[tsc])
    elif method == 5:
        want = sym_min(maxirr, depth)
    want = sym_max(0, want)
    want = If(irr_cum + want > maxseason, sym_max(0, maxseason - irr_cum), want)
    ctx.prove("C13:applied depth equals the strategy's contract (reference model)", approx(irr, want, 1e-9))
    ctx.prove("contract:depletion,taw reported by irrigation()", And(approx(depl, depl_ref, 1e-9), approx(taw, taw_rz, 1e-12)))
    # C20: neutral settings behave as 'off'
    ctx.prove("C20:MaxIrr=0 => no irrigation", Implies(maxirr <= 0, approx(irr, 0, 0)))
    ctx.prove("C20:MaxIrrSeason=0 => no irrigation", Implies(maxseason <= 0, approx(irr, 0, 0)))
    if method == 5:
        ctx.prove("C20:constant depth 0 => no irrigation", Implies(depth <= 0, approx(irr, 0, 0)))
    if method == 3:
        ctx.prove("C20:nothing scheduled today => no irrigation", Implies(sched[tsc] <= 0, approx(irr, 0, 0)))
    # C20: parameters of the strategies that are not selected are inert
    others = [p for p in ALLP if p not in PARAMS[method]]

    def rerun(alt):
        r = call(alt)
        return [r[0], r[1], r[2], r[3]]
    for pname in others:
        ctx.prove_independent(f"C20:{pname} has no effect under irrigation method {method}", [pname], [depl, taw, cum2, irr], rerun, since=m0)
    if ctx.feasible(irr > 0.001):
        ctx.reach("irrigation-applied")
    if method in (1, 2, 3, 5) and ctx.feasible(And(irr > 0.001, irr < maxirr - 1, cum2 >= maxseason)):
        ctx.reach("season-cap-binds")


def _pre_configs(tier):
    out = []
    profs = [(["SandyLoam"] * 2, [0.1, 0.2]), (["Sand", "Clay"], [0.1, 0.1])]
    if tier != "quick":
        profs += [(["Clay", "Clay", "Sand"], [0.1, 0.1, 0.1])]
    for layers, dzs in profs:
        for method in (4, 2):
            for day1 in (True, False):
                for gs in (True, False):
                    if (method != 4 or not day1) and not gs:
                        continue
                    out.append((f"{'/'.join(layers)}|{dzs}|method={method}|day1={int(day1)}|gs={int(gs)}",
                                {"layers": layers, "dzs": dzs, "method": method, "day1": day1, "gs": gs}))
    return out


@harness("pre_irrigation", modules=["aquacrop.solution.pre_irrigation"], props=["C01", "C03", "C04", "C06", "C12", "C13", "C16"],
         configs=_pre_configs, round_enum=64, goals=["pre-irrigation-applied"])
def h_pre(ctx, cfg):
    soil, base = build_profile(cfg["layers"], cfg["dzs"])
    prof = prof_for(ctx, base)
    n = len(cfg["dzs"])
    zsoil = float(base.dzsum[-1])
    th = ctx.arr("th", n, lo=base.th_dry, hi=base.th_s)
    zroot = ctx.real("z_root", 0, zsoil)
    smt = ctx.real("NetIrrSMT", 0, 100)
    nc = types.SimpleNamespace(th=th, dap=1 if cfg["day1"] else ctx.int("dap", 2, 400), z_root=zroot)
    if not cfg["gs"]:
        nc.dap = 0
    crop = types.SimpleNamespace(Zmin=0.1)
    irr = types.SimpleNamespace(irrigation_method=cfg["method"], NetIrrSMT=smt)
    th0 = list(th)
    snap = prof_snapshot(prof)
    before = storage(base, th0)
    nc2, pre = MP.pre_irrigation(prof, crop, nc, cfg["gs"], irr)
    after = storage(base, nc2.th)
    ctx.out("PreIrr", pre); ctx.out("th", nc2.th)
    ctx.prove("C01:pre-irrigation balance S'=S+PreIrr", approx(after, before + pre, 1e-9))
    ctx.prove("C04,C13:PreIrr>=0", pre >= 0)
    if not (cfg["method"] == 4 and cfg["day1"] and cfg["gs"]):
        ctx.prove("C13:pre-irrigation only on day 1 of a net-irrigation season", And(approx(pre, 0, 0), *[a == b for a, b in zip(list(nc2.th), th0)]))
    ctx.prove("C03:th within [dry,sat] after pre-irrigation",
              And(*[And(nc2.th[i] >= float(base.th_dry[i]) - 1e-12, nc2.th[i] <= float(base.th_s[i]) + 1e-12) for i in range(n)]))
    ctx.prove("C03:pre-irrigation raises only up to the target below field capacity",
              And(*[Or(nc2.th[i] == th0[i], nc2.th[i] <= float(base.th_fc[i]) + 1e-12) for i in range(n)]))
    prove_prof_unchanged(ctx, prof, snap, "C12:pre_irrigation")
    if ctx.feasible(pre > 0.01):
        ctx.reach("pre-irrigation-applied")
