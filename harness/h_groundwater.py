"""Leaf harnesses: real check_groundwater_table, capillary_rise, groundwater_inflow (C19, C01, C03, C04)."""
import types
import numpy as np
from symx import harness, And, Or, Not, Implies, If
from .common import build_profile, prof_for, storage, approx, prof_snapshot, prove_prof_unchanged

import aquacrop.solution.check_groundwater_table as MG
import aquacrop.solution.capillary_rise as MC
import aquacrop.solution.groundwater_inflow as MI


def _profs(tier):
    p = [(["SandyLoam"] * 2, [0.1, 0.2]), (["Clay", "Sand"], [0.1, 0.1]), (["Loam"] * 3, [0.1, 0.1, 0.1])]
    if tier != "quick":
        p += [(["Sand", "Clay", "Clay"], [0.1, 0.15, 0.2]), (["SiltClay"] * 2, [0.2, 0.2]), (["PaddyTop", "PaddyPan"], [0.1, 0.1]),
              (["ClayLoam", "LoamySand", "LoamySand"], [0.1, 0.1, 0.1])]
    return p


def _xmax(fc):
    if fc <= 0.1:
        return 1.0
    if fc >= 0.3:
        return 2.0
    pF = 2 + 0.3 * (fc - 0.1) / 0.2
    return float(np.exp(pF * np.log(10)) / 100)


def _cgw_configs(tier):
    out = []
    for layers, dzs in _profs(tier):
        for wt in (1, 0):
            out.append((f"{'/'.join(layers)}|{dzs}|wt={wt}", {"layers": layers, "dzs": dzs, "wt": wt}))
    return out


@harness("check_groundwater_table", modules=["aquacrop.solution.check_groundwater_table"], props=["C01", "C12", "C16", "C19"],
         configs=_cgw_configs, goals=["table-in-profile", "fc-raised"])
def h_cgw(ctx, cfg):
    soil, base = build_profile(cfg["layers"], cfg["dzs"], water_table=1)
    prof = prof_for(ctx, base)
    n = len(cfg["dzs"])
    th = ctx.arr("th", n, lo=base.th_dry, hi=base.th_s)
    fca0 = ctx.arr("fca_prev", n, lo=base.th_fc, hi=base.th_s)
    zgw_prev = ctx.real("z_gw_prev", -1, 40)
    zgw = ctx.real("z_gw", 0, 40)
    snap = prof_snapshot(prof)
    th0 = list(th)
    fca, wt_in, z2 = MG.check_groundwater_table(prof, zgw_prev, th, fca0, cfg["wt"], zgw)
    ctx.out("fca", fca)
    ctx.prove("C01,C12:check_groundwater_table leaves th untouched", And(*[a == b for a, b in zip(list(th), th0)]))
    prove_prof_unchanged(ctx, prof, snap, "C12:check_groundwater_table")
    if cfg["wt"] == 0:
        ctx.prove("C19:no table => adjusted field capacity unchanged", And(*[fca[i] == fca0[i] for i in range(n)]))
        return
    ctx.prove("C19:th_fc <= th_fc_Adj <= th_s", And(*[And(fca[i] >= float(base.th_fc[i]) - 1e-12, fca[i] <= float(base.th_s[i]) + 1e-12) for i in range(n)]))
    far = And(*[zgw - float(base.zMid[i]) >= _xmax(float(base.th_fc[i])) + 1e-9 for i in range(n)])
    ctx.prove("C19:table far below => th_fc_Adj = th_fc", Implies(far, And(*[approx(fca[i], float(base.th_fc[i]), 1e-12) for i in range(n)])))
    for i in range(n):
        ctx.prove(f"C19:th_fc_Adj[{i}] = th_fc when the table is further than Xmax below the compartment",
                  Implies(zgw - float(base.zMid[i]) >= _xmax(float(base.th_fc[i])) + 1e-9, approx(fca[i], float(base.th_fc[i]), 1e-12)))
        ctx.prove(f"C19:th_fc_Adj[{i}] = th_s for a compartment centred below the table",
                  Implies(float(base.zMid[i]) >= zgw, approx(fca[i], float(base.th_s[i]), 1e-12)))
    any_below = Or(*[float(base.zMid[i]) >= zgw for i in range(n)])
    ctx.prove("C16,C19:wt_in_soil <=> some compartment centre at or below the table (groundwater_inflow indexes the first such compartment)", (wt_in == True) == any_below if not isinstance(wt_in, bool) else (any_below if wt_in else Not(any_below)))
    ctx.prove("C19:reported table depth = today's configured depth", approx(z2, zgw, 0))
    if ctx.feasible(any_below):
        ctx.reach("table-in-profile")
    if ctx.feasible(fca[0] > float(base.th_fc[0]) + 1e-6):
        ctx.reach("fc-raised")


def _cr_configs(tier):
    out = []
    for layers, dzs in _profs(tier):
        if tier == "quick" and len(dzs) > 2:
            continue
        for wt in (1, 0):
            out.append((f"{'/'.join(layers)}|{dzs}|wt={wt}", {"layers": layers, "dzs": dzs, "wt": wt}))
    return out


@harness("capillary_rise", modules=["aquacrop.solution.capillary_rise"], props=["C01", "C03", "C04", "C12", "C16", "C19"],
         configs=_cr_configs, abstract_nl=True, goals=["capillary-rise>0", "filled-to-fc"])
def h_cr(ctx, cfg):
    soil, base = build_profile(cfg["layers"], cfg["dzs"], water_table=1)
    prof = prof_for(ctx, base)
    n = len(cfg["dzs"])
    th = ctx.arr("th", n, lo=base.th_dry, hi=base.th_s)
    fca = ctx.arr("fca", n, lo=base.th_fc, hi=base.th_s)
    flux = ctx.arr("FluxOut", n, lo=0, hi=base.Ksat)
    zgw = ctx.real("z_gw", 0.01, 40)
    # the profile object carries its own th_fc_Adj (written once at initialisation for the first day's table depth): an arbitrary,
    # possibly stale snapshot that today's capillary rise must not use
    prof.th_fc_Adj = ctx.arr("prof_fca_snapshot", n, lo=base.th_fc, hi=base.th_s)
    nc = types.SimpleNamespace(th=th, th_fc_Adj=fca, z_gw=zgw)
    nlayer = int(np.unique(base.Layer).shape[0])
    snap = prof_snapshot(prof)
    th0 = list(th)
    before = storage(base, th0)
    nc2, cr = MC.capillary_rise(prof, nlayer, 16, nc, flux, cfg["wt"])
    after = storage(base, nc2.th)
    added = after - before
    ctx.out("CR", cr); ctx.out("th", nc2.th)
    zsoil = float(base.dzsum[-1])
    ctx.prove("C01:capillary rise balance |S'-S-CR| <= 0.05 mm per m of profile", And(added - cr <= 0.05 * zsoil + 1e-9, cr - added <= 0.05 * zsoil + 1e-9))
    ctx.prove("C04:CR>=0", cr >= -1e-12)
    ctx.prove("C03:th not lowered, <= th_s after capillary rise",
              And(*[And(nc2.th[i] >= th0[i] - 1e-12, nc2.th[i] <= float(base.th_s[i]) + 1e-12) for i in range(n)]))
    ctx.prove("C19:capillary rise never lifts a compartment above its adjusted field capacity",
              And(*[Or(nc2.th[i] == th0[i], nc2.th[i] <= fca[i] + 1e-12) for i in range(n)]))
    if cfg["wt"] == 0:
        ctx.prove("C19:no table => CR=0 and th untouched", And(approx(cr, 0, 0), *[a == b for a, b in zip(list(nc2.th), th0)]))
    far = zgw - float(base.zMid[-1]) >= 4
    ctx.prove("C19:table >= 4 m below the bottom compartment => CR=0", Implies(far, And(approx(cr, 0, 0), *[a == b for a, b in zip(list(nc2.th), th0)])))
    snap["th_fc_Adj"] = list(prof.th_fc_Adj)
    prove_prof_unchanged(ctx, prof, snap, "C12:capillary_rise")
    if ctx.feasible(cr > 0.01):
        ctx.reach("capillary-rise>0")
    if ctx.feasible(And(nc2.th[n - 1] > th0[n - 1], nc2.th[n - 1] == fca[n - 1])):
        ctx.reach("filled-to-fc")


@harness("groundwater_inflow", modules=["aquacrop.solution.groundwater_inflow"], props=["C01", "C03", "C04", "C12", "C16", "C19"],
         configs=_cgw_configs, goals=["inflow>0"])
def h_gwin(ctx, cfg):
    soil, base = build_profile(cfg["layers"], cfg["dzs"], water_table=1)
    prof = prof_for(ctx, base)
    n = len(cfg["dzs"])
    th = ctx.arr("th", n, lo=base.th_dry, hi=base.th_s)
    zgw = ctx.real("z_gw", 0, 40)
    any_below = Or(*[float(base.zMid[i]) >= zgw for i in range(n)])
    if cfg["wt"] == 1:
        wt_in = ctx.bool("wt_in_soil")
        ctx.assume(wt_in == any_below)       # contract of check_groundwater_table (proved there)
    else:
        wt_in = None                         # what check_groundwater_table returns without a table
    nc = types.SimpleNamespace(th=th, z_gw=zgw, wt_in_soil=wt_in)
    snap = prof_snapshot(prof)
    th0 = list(th)
    before = storage(base, th0)
    nc2, gw = MI.groundwater_inflow(prof, nc)
    after = storage(base, nc2.th)
    ctx.out("GwIn", gw); ctx.out("th", nc2.th)
    ctx.prove("C01:groundwater inflow balance S'=S+GwIn", approx(after, before + gw, 1e-9))
    ctx.prove("C04:GwIn>=0", gw >= -1e-12)
    ctx.prove("C03:th within [dry,sat] after groundwater inflow",
              And(*[And(nc2.th[i] >= th0[i] - 1e-12, nc2.th[i] <= float(base.th_s[i]) + 1e-12) for i in range(n)]))
    if cfg["wt"] == 1:
        ctx.prove("C19:every compartment centred below the table ends the day saturated",
                  And(*[Implies(float(base.zMid[i]) >= zgw, approx(nc2.th[i], float(base.th_s[i]), 1e-12)) for i in range(n)]))
        ctx.prove("C19:compartments above the table are not touched by groundwater inflow",
                  And(*[Implies(float(base.zMid[i]) < zgw, nc2.th[i] == th0[i]) for i in range(n)]))
    else:
        ctx.prove("C19:no table => GwIn=0 and th untouched", And(approx(gw, 0, 0), *[a == b for a, b in zip(list(nc2.th), th0)]))
    prove_prof_unchanged(ctx, prof, snap, "C12:groundwater_inflow")
    if ctx.feasible(gw > 0.01):
        ctx.reach("inflow>0")
