"""Driver: ./check <PROPERTY> [--tier quick|thorough] [--replay FILE] [--only HARNESS] [--list]

exit 0 = every obligation of the property discharged on every explored path (or matched a known finding)
exit 1 = a counterexample replayed against the real, unpatched code violates the property (VIOLATION line)
exit 3 = inconclusive / harness error (never a VIOLATION line)
"""
import argparse
import hashlib
import importlib
import json
import os
import re
import sys
import time

HERE = os.path.dirname(os.path.abspath(__file__))
sys.path.insert(0, HERE)
os.environ.setdefault("AQUACROP_VERIF", "1")

import warnings
warnings.filterwarnings("ignore")

import symx
from symx import explore
import harness  # noqa: registers all harnesses
from harness import registry


def src_hash(modname):
    m = importlib.import_module(modname)
    with open(m.__file__, "rb") as f:
        return hashlib.sha1(f.read()).hexdigest()[:12]


def label_props(label):
    head = label.split(":", 1)[0]
    return [p.strip() for p in head.split(",")]


def load_known():
    p = os.path.join(HERE, "known_findings.json")
    if not os.path.exists(p):
        return []
    return json.load(open(p))["findings"]


def match_known(known, prop, hname, cfgkey, label):
    for k in known:
        if k.get("kind") != "known" or k["property"] != prop:
            continue
        sig = k["signature"]
        if sig.get("harness") and not re.fullmatch(sig["harness"], hname):
            continue
        if sig.get("label") and not re.fullmatch(sig["label"], label):
            continue
        if sig.get("config") and not re.fullmatch(sig["config"], cfgkey):
            continue
        return k
    return None


def write_replay(prop, hname, cfgkey, cfg, label, inputs, kind="obligation", extra=None):
    d = os.path.join(HERE, "replays")
    os.makedirs(d, exist_ok=True)
    safe = re.sub(r"[^A-Za-z0-9_.-]+", "_", f"{prop}_{hname}_{cfgkey}_{label}")[:150]
    path = os.path.join(d, safe + ".json")
    json.dump({"property": prop, "harness": hname, "config_key": cfgkey, "config": cfg, "label": label, "kind": kind,
               "inputs": inputs, "extra": extra,
               "how": f"./check {prop} --replay {path}  (runs the harness on these concrete inputs against the unpatched functions of /repo)"},
              open(path, "w"), indent=1, default=str)
    return path


def do_replay(path):
    r = json.load(open(path))
    h = explore.HARNESSES[r["harness"]]
    st, cc = explore.run_concrete(h, r["config"], r["inputs"])
    print(f"replay {r['harness']} [{r['config_key']}] status={st}")
    if st == "raised":
        print("  real code raised:", cc.notes.get("raised"), "at", cc.notes.get("where"))
    bad = [(l, ok) for (l, ok) in cc.obls if not ok]
    for l, ok in cc.obls:
        if l == r["label"] or not ok:
            print(f"  {'HOLDS ' if ok else 'FAILS '} {l}")
    for k, v in cc.outputs.items():
        print(f"  out {k} = {v}")
    import math as _m
    import numpy as _n
    nonfinite = [k for k, v in cc.outputs.items() for x in (list(v) if isinstance(v, (list, tuple, _n.ndarray)) else [v])
                 if isinstance(x, (float, _n.floating)) and not _m.isfinite(x)]
    viol = (st == "raised" and r["kind"] in ("raise", "hazard")) or (r["kind"] == "hazard" and bool(nonfinite)) or \
        any(l == r["label"] and not ok for l, ok in cc.obls)
    if viol:
        print(f"VIOLATION property={r['property']} replay={path}")
        return 1
    print("not reproduced")
    return 0


def main():
    if os.environ.get("SYMX_DEBUG_HANG"):
        import faulthandler
        faulthandler.dump_traceback_later(int(os.environ["SYMX_DEBUG_HANG"]), repeat=True, file=open("/tmp/symx_master.tb", "w"))
    ap = argparse.ArgumentParser()
    ap.add_argument("prop", nargs="?")
    ap.add_argument("--tier", default=os.environ.get("VERIF_TIER", "quick"))
    ap.add_argument("--replay")
    ap.add_argument("--only")
    ap.add_argument("--list", action="store_true")
    ap.add_argument("--nproc", type=int, default=min(16, os.cpu_count() or 1))
    ap.add_argument("--no-evidence", action="store_true")
    ap.add_argument("--cfg", help="regex on config key")
    ap.add_argument("--verbose", "-v", action="store_true")
    ap.add_argument("--all-labels", action="store_true", help="discharge the obligations of every property, not only this one")
    args = ap.parse_args()
    seed = int(os.environ.get("VERIF_SEED", "0"))
    if args.list:
        for n, h in explore.HARNESSES.items():
            print(n, h.props, len(h.configs(args.tier)))
        return 0
    if args.replay:
        return do_replay(args.replay)
    prop = args.prop
    tier = args.tier
    t0 = time.time()
    spec = registry.PROPS.get(prop, {})
    hs = [h for h in explore.HARNESSES.values() if prop in h.props and (not args.only or re.fullmatch(args.only, h.name))]
    if not hs:
        print(f"no harness for {prop}")
        return 3
    jobs = []
    lim = spec.get("cfg_limit", {}).get(tier)
    limited = set()
    for h in hs:
        cfgs = h.configs(tier)
        if lim and len(cfgs) > lim and not args.cfg:
            limited.add(h.name)
            # this property's clauses (frame / no-exception) do not depend on the soil catalogue: an evenly spaced subset of the
            # harness's configurations is explored in this tier (the full set in the thorough tier)
            step = len(cfgs) / float(lim)
            cfgs = [cfgs[int(i * step)] for i in range(lim)]
        for ck, cfg in cfgs:
            if args.cfg and not re.search(args.cfg, ck):
                continue
            jobs.append((h.name, ck, cfg))
    budget = spec.get("budget_s", {}).get(tier, 900 if tier == "quick" else 7200)
    deadline = t0 + budget
    explore.WANT[0] = None if args.all_labels else {prop, "contract"}
    if prop == "C16":
        os.environ["SYMX_DECIDE_HAZARDS"] = "1"      # C16: every arithmetic hazard with a witness is replayed on the real code (inherited by the workers)
    # second solver: every k-th obligation z3 answers 'unsat' is exported as SMT-LIB2 and decided again by cvc5 (inherited by the workers)
    os.environ.setdefault("SYMX_XCHECK", "40" if tier == "quick" else "15")
    explore.XCHECK_EVERY = int(os.environ["SYMX_XCHECK"] or 0)
    aggs = explore.explore_many(jobs, nproc=args.nproc, deadline=deadline)

    known = load_known()
    violations = []      # (hname, cfgkey, label, cex)
    knowns = []
    inconclusive = []
    n_obl = n_dis = 0
    paths = decisions = validated = nq = unknown = 0
    tsolve = 0.0
    xc = {"n": 0, "agree": 0, "unknown": 0, "disagree": 0, "t": 0.0, "disagreements": []}
    samples = []
    hazards_all = {}
    reached = {}
    seen_label = set()
    for (hn, ck), a in sorted(aggs.items()):
        h = explore.HARNESSES[hn]
        if args.verbose:
            print(f"  {hn}[{ck}] paths={a.paths} status={a.by_status} validated={a.validated} reached={sorted(a.reached)} nq={a.nq} ts={a.tsolve:.1f}")
            for kind, det in a.mismatches[:2]:
                print("     mismatch:", kind, str(det)[:600])
        paths += a.paths; decisions += a.decisions; nq += a.nq; unknown += a.unknown; tsolve += a.tsolve
        validated += a.validated.get("ok", 0)
        for k in ("n", "agree", "unknown", "disagree", "t"):
            xc[k] += a.xc[k]
        for l in a.xc["disagreements"]:
            xc["disagreements"].append(f"{hn}[{ck}]: {l}")
            inconclusive.append(f"{hn}[{ck}]: '{l}': z3 says unsat, cvc5 says sat on the same SMT-LIB2 text (solver disagreement, neither believed)")
        samples += a.samples[:1] if len(samples) < 12 else []
        reached.setdefault(hn, set()).update(a.reached)
        if a.errors:
            inconclusive.append(f"{hn}[{ck}]: engine error: {a.errors[0][:300]}")
        if a.truncated:
            inconclusive.append(f"{hn}[{ck}]: exploration truncated, {a.truncated} prefixes left (budget)")
        if a.paths == 0:
            inconclusive.append(f"{hn}[{ck}]: no feasible path (vacuous harness)")
        for k, n in a.aborts.items():
            inconclusive.append(f"{hn}[{ck}]: {n} aborted path(s): {k}")
        for st in ("bound", "unknown-path"):
            if a.by_status.get(st):
                inconclusive.append(f"{hn}[{ck}]: {a.by_status[st]} path(s) ended '{st}'")
        nmm = 0
        for kind, det in a.mismatches:
            if kind == "obl-mismatch":
                # the concrete run of a path model violated an obligation this path proved: an encoding error unless the
                # floats left the path (tie in round(), knife-edge compare) for a path on which the obligation is refuted anyway
                labs = det["labels"]
                if all((a.labels.get(l, {}).get("confirmed", 0) + a.labels.get(l, {}).get("unconfirmed", 0)) > 0 for l in labs):
                    continue
                # the real, unpatched code violates the clause on these concrete inputs although the symbolic run of the same path
                # proved it: the violation is real (it reproduces), and the engine's model of some operation is too weak
                for l in labs:
                    if prop in label_props(l):
                        violations.append((hn, ck, l, {"inputs": det["inputs"]}, 1))
            nmm += 1
            if nmm <= 3:
                inconclusive.append(f"{hn}[{ck}]: ENCODING MISMATCH ({kind}): {str(det)[:400]}")
        for label, d in a.labels.items():
            lp = label_props(label)
            if prop not in lp and "contract" not in lp:
                continue
            n = d["unsat"] + d["confirmed"] + d["unconfirmed"] + d["unknown"]
            n_obl += n; n_dis += d["unsat"]
            if d["confirmed"]:
                if prop in lp:
                    violations.append((hn, ck, label, d["cex"], d["confirmed"]))
                else:
                    inconclusive.append(f"{hn}[{ck}]: contract obligation '{label}' refuted ({d['confirmed']} paths): stubs relying on it are unsound")
            if d["unconfirmed"]:
                inconclusive.append(f"{hn}[{ck}]: '{label}': {d['unconfirmed']} solver counterexample(s) not reproduced on the real code after refinement: {json.dumps(d['ucex'])[:300]}")
            if d["unknown"]:
                inconclusive.append(f"{hn}[{ck}]: '{label}': {d['unknown']} unknown")
        # hazards: raise / non-finite -> C16 (and whichever property lists hazards)
        for kind, d in a.hazards.items():
            e = hazards_all.setdefault(f"{hn}:{kind}", {"n": 0, "confirmed": 0, "sample": None})
            e["n"] += d["n"]; e["confirmed"] += d["confirmed"]
            e["sample"] = e["sample"] or d["sample"]
            if kind == "raise" and prop not in h.opts.get("raise_props", ["C16"]):
                inconclusive.append(f"{hn}[{ck}]: {d['n']} path(s) ended with an exception of the code under analysis before the obligations were reached: {d['sample']['detail'][:200]}")
            if kind.endswith("!") and d["confirmed"] and prop == "C16" and prop in h.props:
                violations.append((hn, ck, f"C16:finite outputs, no arithmetic fault [{kind[:-1]}: {d['sample']['detail'][:160]}]", {"inputs": d["sample"]["inputs"], "hazard": True}, d["confirmed"]))
            if prop in h.opts.get("raise_props", ["C16"]) and prop in h.props:
                if kind == "raise" and d["confirmed"]:
                    violations.append((hn, ck, f"{prop}:no exception [{d['sample']['detail'][:140]}]", {"inputs": d["sample"]["inputs"], "raise": True}, d["confirmed"]))
    # coverage goals
    for h in hs:
        if args.cfg:
            break
        for g in h.opts.get("goals", []):
            if h.name in limited:
                continue      # vacuity guard needs the harness's full configuration list (it is checked by the other properties' runs)
            if g not in reached.get(h.name, set()):
                inconclusive.append(f"{h.name}: coverage goal '{g}' not reached in any configuration (vacuity guard)")
    # cross checks registered for the property (non-path-based checks)
    extra_cov = {}
    for fn in spec.get("extra", []):
        r = fn(tier)
        extra_cov.update(r.get("coverage", {}))
        for v in r.get("violations", []):
            violations.append(v)
        inconclusive += r.get("inconclusive", [])

    # report
    out_viol = []
    seen = set()
    for (hn, ck, label, cex, n) in violations:
        kf = match_known(known, prop, hn, ck, label)
        cfg = next((c for (h_, k_, c) in jobs if h_ == hn and k_ == ck), None)
        if kf:
            key = kf["id"]
            if key not in seen:
                seen.add(key)
                print(f"KNOWN-FINDING: property={prop} {kf['id']}: {kf['description']} [{hn} {ck}: {label}]")
            knowns.append(kf["id"])
            continue
        key = (hn, label)
        if key in seen:
            continue
        seen.add(key)
        kind = "raise" if (cex or {}).get("raise") else ("hazard" if (cex or {}).get("hazard") else "obligation")
        path = write_replay(prop, hn, ck, cfg, label, (cex or {}).get("inputs"), kind=kind)
        # replay once more here, in this process, against the unpatched code
        rc = do_replay(path) if cfg is not None else 1
        if rc == 1:
            out_viol.append((hn, ck, label, path))
        else:
            inconclusive.append(f"{hn}[{ck}]: '{label}' counterexample did not reproduce in the driver replay")
    wall = time.time() - t0
    status = "violation" if out_viol else ("inconclusive" if inconclusive else "holds")
    if not args.no_evidence:
        ev = {
            "property_id": prop, "tier": tier, "seed": seed, "level": "model_checking",
            "coverage": {
                "states": max(paths, 0), "transitions": max(decisions, 0),
                "traces_validated_against_impl": validated,
                "samples": samples or [{"note": "no completed path"}],
                "obligations": n_obl, "discharged": n_dis, "queries": nq, "solver_unknown": unknown,
                "solver_time_s": round(tsolve, 2),
                "second_solver": {"solver": "cvc5 (python wheel)", "sampling": f"per worker: the first {explore.XCHECK_FIRST} obligations answered unsat by z3, then every {explore.XCHECK_EVERY}-th" if explore.XCHECK_EVERY else "off",
                                  "requeried": xc["n"], "agree_unsat": xc["agree"], "cvc5_unknown_or_timeout": xc["unknown"], "disagree": xc["disagree"],
                                  "time_s": round(xc["t"], 2), "time_limit_ms": explore.XCHECK_TLIMIT_MS},
                "harnesses": sorted({h.name for h in hs}),
                "configurations": len(jobs),
                "functions_encoded": sorted({f"{m}:{src_hash(m)}" for h in hs for m in h.modules}),
                "bounds": spec.get("bounds", {}).get(tier, spec.get("bounds", {}).get("all", "")),
                "outside_claim": spec.get("outside", []),
                "hazards": {k: {"paths": v["n"], "confirmed_on_real_code": v["confirmed"], "sample": (v["sample"] or {}).get("detail")} for k, v in hazards_all.items()},
                "coverage_goals": {hn: sorted(v) for hn, v in reached.items()},
                "known_findings_matched": sorted(set(knowns)),
                "inconclusive": inconclusive[:40],
                "exhaustive": not inconclusive,
                "status": status,
                "rule": "states = feasible execution paths of the real functions explored symbolically (every path within the stated bounds unless 'inconclusive' lists a truncation); transitions = branch decisions; a trace is validated when the path's solver model, run through the unpatched function, satisfies every discharged obligation and reproduces the symbolic outputs",
                **extra_cov,
            },
            "assumptions": spec.get("assumptions", []) + registry.COMMON_ASSUMPTIONS,
            "wall_s": round(wall, 2),
            "violations": len(out_viol),
        }
        os.makedirs(os.path.join(HERE, "evidence"), exist_ok=True)
        json.dump(ev, open(os.path.join(HERE, "evidence", f"{prop}.json"), "w"), indent=1, default=str)
    print(f"[{prop} {tier}] harnesses={len(hs)} configs={len(jobs)} paths={paths} obligations={n_obl} discharged={n_dis} queries={nq} "
          f"solver_s={tsolve:.1f} cvc5_requeried={xc['n']}/agree={xc['agree']}/unknown={xc['unknown']}/disagree={xc['disagree']} validated={validated} wall={wall:.1f}s status={status}")
    for hk, v in sorted(hazards_all.items()):
        print(f"  hazard {hk}: {v['n']} path(s), confirmed {v['confirmed']}: {(v['sample'] or {}).get('detail')}")
    for (hn, ck, label, path) in out_viol:
        print(f"VIOLATION property={prop} replay={path}")
    if out_viol:
        return 1
    if inconclusive:
        for m in inconclusive[:40]:
            print("INCONCLUSIVE:", m)
        return 3
    return 0


if __name__ == "__main__":
    sys.exit(main())
