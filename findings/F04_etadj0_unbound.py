"""C16: Crop(..., ETadj=0) (documented switch) raised UnboundLocalError in transpiration on the first in-season day."""
import warnings; warnings.filterwarnings("ignore")
from aquacrop import AquaCropModel, Soil, Crop, InitialWaterContent
from aquacrop.utils import prepare_weather, get_filepath
w = prepare_weather(get_filepath("champion_climate.txt"))
try:
    m = AquaCropModel("1982/05/01", "1982/10/30", w, Soil("SandyLoam"), Crop("Maize", planting_date="05/01", ETadj=0), InitialWaterContent(value=["FC"]))
    m.run_model(till_termination=True)
    y = m.get_simulation_results()["Dry yield (tonne/ha)"].values
    print("ran to completion, yield", y); print("PASS"); raise SystemExit(0)
except Exception as e:
    print("FAIL:", type(e).__name__, e); raise SystemExit(1)
