"""C08: potential evaporation/transpiration of the last day of season k leaked into the irrigation decision of day 1 of season k+1."""
import warnings; warnings.filterwarnings("ignore")
from aquacrop import AquaCropModel, Soil, Crop, InitialWaterContent, IrrigationManagement
from aquacrop.utils import prepare_weather, get_filepath
w = prepare_weather(get_filepath("champion_climate.txt"))
def run(start, end):
    m = AquaCropModel(start, end, w, Soil("SandyLoam"), Crop("Maize", planting_date="05/01"), InitialWaterContent(value=["FC"]),
                      irrigation_management=IrrigationManagement(irrigation_method=2, IrrInterval=7))
    m.run_model(till_termination=True)
    return m.get_simulation_results()["Seasonal irrigation (mm)"].values
multi = run("1982/05/01", "1984/10/30"); single = run("1983/05/01", "1983/10/30")
print("season 2 of the 3-season run:", multi[1], " single-season run started 1983/05/01:", single[0])
ok = multi[1] == single[0]
print("PASS" if ok else "FAIL"); raise SystemExit(0 if ok else 1)
