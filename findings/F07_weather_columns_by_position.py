"""C15: weather variables were taken by column position: reordering the columns or adding an unrelated one changed the results."""
import warnings; warnings.filterwarnings("ignore")
from aquacrop import AquaCropModel, Soil, Crop, InitialWaterContent
from aquacrop.utils import prepare_weather, get_filepath
w = prepare_weather(get_filepath("tunis_climate.txt"))
def run(df):
    m = AquaCropModel("1979/10/01", "1980/05/30", df, Soil("SandyLoam"), Crop("Wheat", planting_date="10/01"), InitialWaterContent(value=["FC"]))
    m.run_model(till_termination=True)
    return float(m.get_simulation_results()["Dry yield (tonne/ha)"].iloc[0])
base = run(w.copy())
res = {}
try:
    res["reordered"] = run(w[["Precipitation", "ReferenceET", "MinTemp", "MaxTemp", "Date"]].copy())
except Exception as e:
    res["reordered"] = f"{type(e).__name__}: {e}"
try:
    x = w.copy(); x.insert(0, "WindSpeed", 3.3); res["extra column first"] = run(x)
except Exception as e:
    res["extra column first"] = f"{type(e).__name__}: {e}"
print("canonical:", base, res)
ok = all(v == base for v in res.values())
print("PASS" if ok else "FAIL"); raise SystemExit(0 if ok else 1)
