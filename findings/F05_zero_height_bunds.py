"""C16: FieldMngt(bunds=True) with the default bund height 0 raised UnboundLocalError ('ToStore') on the first day."""
import warnings; warnings.filterwarnings("ignore")
from aquacrop import AquaCropModel, Soil, Crop, InitialWaterContent, FieldMngt
from aquacrop.utils import prepare_weather, get_filepath
w = prepare_weather(get_filepath("champion_climate.txt"))
def run(fm):
    m = AquaCropModel("1982/05/01", "1982/10/30", w, Soil("SandyLoam"), Crop("Maize", planting_date="05/01"), InitialWaterContent(value=["FC"]), field_management=fm)
    m.run_model(till_termination=True)
    return m.get_simulation_results()["Dry yield (tonne/ha)"].values
try:
    a = run(FieldMngt(bunds=True)); b = run(FieldMngt())
    print("zero-height bunds:", a, "no bunds:", b)
    ok = (a == b).all()
    print("PASS" if ok else "FAIL"); raise SystemExit(0 if ok else 1)
except Exception as e:
    print("FAIL:", type(e).__name__, e); raise SystemExit(1)
