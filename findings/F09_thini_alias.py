"""C08/C01: the configured initial water content (thini) was the same array as the live water content, so the day-1 pre-irrigation of
season 1 (net irrigation, dry start) overwrote it: later seasons no longer started from the configured initial conditions."""
import warnings; warnings.filterwarnings("ignore")
from aquacrop import AquaCropModel, Soil, Crop, InitialWaterContent, IrrigationManagement
from aquacrop.utils import prepare_weather, get_filepath
w = prepare_weather(get_filepath("champion_climate.txt"))
def run(start, end):
    m = AquaCropModel(start, end, w, Soil("SandyLoam"), Crop("Maize", planting_date="05/01"), InitialWaterContent(value=["WP"]),
                      irrigation_management=IrrigationManagement(irrigation_method=4, NetIrrSMT=70))
    m.run_model(till_termination=True)
    return m
multi = run("1982/05/01", "1984/10/30"); single = run("1983/05/01", "1983/10/30")
f = multi.get_water_flux(); d1 = f[(f.season_counter == 1) & (f.dap == 1)].IrrDay.iloc[0]
s1 = single.get_water_flux(); e1 = s1[s1.dap == 1].IrrDay.iloc[0]
a = multi.get_simulation_results()["Seasonal irrigation (mm)"].values[1]; b = single.get_simulation_results()["Seasonal irrigation (mm)"].values[0]
print("net irrigation on day 1 of season 2:", d1, " in the single-season run:", e1, "; seasonal totals", a, b)
ok = (d1 == e1) and (a == b)
print("PASS" if ok else "FAIL"); raise SystemExit(0 if ok else 1)
