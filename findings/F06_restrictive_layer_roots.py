"""C05: with a restrictive soil layer (penetrability < 100 %) the rooting depth shrank below Zmin and went negative."""
import warnings; warnings.filterwarnings("ignore")
from aquacrop import AquaCropModel, Soil, Crop, InitialWaterContent
from aquacrop.utils import prepare_weather, get_filepath
w = prepare_weather(get_filepath("champion_climate.txt"))
soil = Soil("custom", cn=46, rew=7)
soil.add_layer(0.4, 0.10, 0.22, 0.41, 1200, 100)
soil.add_layer(2.0, 0.10, 0.22, 0.41, 1200, 30)      # subsoil that roots penetrate at 30 % of the normal rate
m = AquaCropModel("1982/05/01", "1982/10/30", w, soil, Crop("Maize", planting_date="05/01"), InitialWaterContent(value=["FC"]))
m.run_model(till_termination=True)
g = m.get_crop_growth()
g = g[g.dap > 0]
zmin = 0.3
shrink = int((g.z_root.diff().fillna(0) < -1e-9).sum())
print("min z_root in season:", float(g.z_root.min()), " days on which z_root decreased:", shrink, " final:", float(g.z_root.iloc[-1]))
ok = g.z_root.min() >= zmin - 1e-9 and shrink == 0
print("PASS" if ok else "FAIL"); raise SystemExit(0 if ok else 1)
