"""C20: curve_number_adj_pct took effect although the curve_number_adj flag was off."""
import warnings; warnings.filterwarnings("ignore")
from aquacrop import AquaCropModel, Soil, Crop, InitialWaterContent, FieldMngt
from aquacrop.utils import prepare_weather, get_filepath
w = prepare_weather(get_filepath("champion_climate.txt"))
def run(fm):
    m = AquaCropModel("1982/05/01", "1982/10/30", w, Soil("ClayLoam"), Crop("Maize", planting_date="05/01"), InitialWaterContent(value=["FC"]), field_management=fm)
    m.run_model(till_termination=True)
    return float(m.get_water_flux().Runoff.sum())
a = run(FieldMngt()); b = run(FieldMngt(curve_number_adj=False, curve_number_adj_pct=20)); c = run(FieldMngt(curve_number_adj=True, curve_number_adj_pct=20))
print("seasonal runoff: default", a, " flag off, pct=20:", b, " flag on, pct=20:", c)
ok = (a == b) and (c != a)
print("PASS" if ok else "FAIL")
raise SystemExit(0 if ok else 1)
