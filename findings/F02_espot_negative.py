"""C04: potential soil evaporation negative (and Es > EsPot) for crops whose canopy cover exceeds ~0.966."""
import warnings; warnings.filterwarnings("ignore")
from aquacrop import AquaCropModel, Soil, Crop, InitialWaterContent, IrrigationManagement
from aquacrop.utils import prepare_weather, get_filepath
w = prepare_weather(get_filepath("champion_climate.txt"))
bad = 0
for crop in ("SugarBeet", "Soybean", "Cotton"):
    m = AquaCropModel("1982/05/01", "1982/12/30", w, Soil("SandyLoam"), Crop(crop, planting_date="05/01"), InitialWaterContent(value=["FC"]),
                      irrigation_management=IrrigationManagement(irrigation_method=1, SMT=[80] * 4))
    m.run_model(till_termination=True)
    f = m.get_water_flux()
    n1 = int((f.EsPot < -1e-12).sum()); n2 = int((f.Es > f.EsPot + 1e-9).sum())
    print(crop, "days EsPot<0:", n1, "min EsPot", float(f.EsPot.min()), "days Es>EsPot:", n2)
    bad += n1 + n2
print("FAIL" if bad else "PASS")
raise SystemExit(1 if bad else 0)
