import warnings; warnings.filterwarnings("ignore")
from aquacrop import AquaCropModel, Soil, Crop, InitialWaterContent
from aquacrop.utils import prepare_weather, get_filepath
w = prepare_weather(get_filepath("champion_climate.txt"))
m = AquaCropModel("1982/05/01","1982/10/30", w, Soil("SandyLoam", z_cn=0.25), Crop("Maize", planting_date="05/01"), InitialWaterContent(value=["FC"]))
m._initialize(); before = m._param_struct.Soil.Profile.dzsum.copy()
m.run_model(till_termination=True, initialize_model=False)
after = m._param_struct.Soil.Profile.dzsum
print("dzsum unchanged:", (before==after).all(), m.get_simulation_results()["Dry yield (tonne/ha)"].values)
