"""C19/C03: capillary rise lifted a compartment above its adjusted field capacity (the room is rounded to 4 decimals, the increment
was not limited to the real room). Function-level witness on the real capillary_rise(); overshoot < 5e-5 m3/m3."""
import warnings; warnings.filterwarnings("ignore")
import types, numpy as np
from aquacrop.entities.soil import Soil
from aquacrop.entities.paramStruct import ParamStruct
from aquacrop.initialize.create_soil_profile import create_soil_profile
from aquacrop.solution.capillary_rise import capillary_rise
soil = Soil("custom", dz=[0.1, 0.1]); soil.add_layer(0.1, 0.39, 0.54, 0.55, 35, 100); soil.add_layer(0.1, 0.06, 0.13, 0.36, 3000, 100)
soil.fill_nan(); soil.add_capillary_rise_params(); soil.profile["th_fc_Adj"] = soil.profile["th_fc"]
ps = ParamStruct(); ps.Soil = soil; ps.water_table = 1; prof = create_soil_profile(ps).Soil.Profile
for a in ("dz", "dzsum", "zMid", "th_wp", "th_fc", "th_s", "Ksat", "aCR", "bCR"): setattr(prof, a, np.array(getattr(prof, a), dtype=float))
nc = types.SimpleNamespace(th=np.array([0.5499250000005, 0.1300249999995]), th_fc_Adj=np.array([0.55, 0.13]), z_gw=1.6449466358299727)
nc, cr = capillary_rise(prof, 2, 16, nc, np.zeros(2), 1)
over = float(nc.th[0] - nc.th_fc_Adj[0])
print("th after capillary rise", nc.th, "adjusted field capacity", nc.th_fc_Adj, "overshoot", over, "(saturation 0.55)")
ok = over <= 1e-12
print("PASS" if ok else "FAIL"); raise SystemExit(0 if ok else 1)
