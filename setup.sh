#!/bin/sh
# Idempotent: builds /verif/.venv = overlay of /venv (the repository's interpreter and
# dependencies) plus z3-solver and cvc5 from the offline wheelhouse.  No network.
set -e
cd "$(dirname "$0")"
V=.venv
if [ -x $V/bin/python ] && $V/bin/python -c "import z3, numpy, pandas" 2>/dev/null; then
  exit 0
fi
rm -rf $V
/venv/bin/python -m venv $V
SP=$($V/bin/python -c "import site; print(site.getsitepackages()[0])")
echo "import site; site.addsitedir('/venv/lib/python3.12/site-packages')" > $SP/_repo_overlay.pth
PIP_NO_INDEX=1 $V/bin/pip install -q --no-index --find-links /opt/veriftools/wheels z3-solver cvc5 >/dev/null 2>&1 || \
PIP_NO_INDEX=1 $V/bin/pip install -q --no-index --find-links /opt/veriftools/wheels z3-solver
$V/bin/python -c "import z3, numpy, pandas; print('setup ok: z3', z3.get_version_string())"
