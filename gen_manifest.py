#!/usr/bin/env python3
"""Regenerates MANIFEST.json from the table below (kept by hand; one entry per claimed property)."""
import json
import os

HERE = os.path.dirname(os.path.abspath(__file__))

TECH = ("bounded symbolic execution of the real /repo functions on z3-backed proxy values (symx): every feasible path "
        "within the stated bounds is enumerated, each property clause is an SMT query (unsat = holds for all inputs on the path), "
        "counterexamples are replayed on the unpatched code")

CLAIMED = {
    # id: (level text, level note, design ref)
}

NOT_APPLICABLE = {
    "C10": "determinism / instance isolation ranges over interpreter-level circumstances (hash seed, process, construction order) "
           "and module-global carriers reached through pandas constructors: no input space for a solver; differential execution is outside this technique family",
    "C11": "idempotence of _initialize() on user objects is about type/identity mutation inside pandas/string code (read_irrigation_management, "
           "fill_nan, compute_crop_calendar) that cannot be encoded; with concrete inputs a two-run comparison is a test, not a solver verdict",
    "C18": "Soil.create_df/add_layer/fill_nan, the deepening loop and read_model_initial_conditions are DataFrame manipulation; the quantifier is over "
           "structure (thickness lists, layer layouts), not values a solver ranges over; only one clause of eight (pedotransfer arithmetic) is encodable",
}


def load_claims():
    p = os.path.join(HERE, "claims.json")
    return json.load(open(p)) if os.path.exists(p) else {}


def main():
    claims = load_claims()
    checks = []
    for pid in sorted(claims):
        c = claims[pid]
        checks.append({
            "property_id": pid,
            "quick_cmd": f"./check {pid} --tier quick",
            "thorough_cmd": f"./check {pid} --tier thorough",
            "evidence_file": f"evidence/{pid}.json",
            "replay_cmd_template": f"./check {pid} --replay {{path}}",
            "engine": "symx",
            "level_claimed": {"category": "model_checking", "text": c["text"], "design_ref": c.get("design_ref", "DESIGN.md section 6")},
            "level_note": c["note"],
            "technique": c.get("technique", TECH),
        })
    na = dict(NOT_APPLICABLE)
    for pid, reason in json.load(open(os.path.join(HERE, "not_claimed.json"))).items() if os.path.exists(os.path.join(HERE, "not_claimed.json")) else []:
        if pid not in claims:
            na[pid] = reason
    man = {
        "version": 1,
        "setup_cmd": "./setup.sh",
        "hooks": {
            "guard": "AQUACROP_VERIF",
            "enable": "no source hooks: all instrumentation is module-namespace rebinding (np, max, min, round, float, int, abs, range and callee names) "
                      "done from the harness process; the checks set AQUACROP_VERIF=1 for uniformity only",
            "baseline_off_cmd": "cd /repo && /venv/bin/python -m pytest -ra -q -p no:cacheprovider --timeout=900 --continue-on-collection-errors",
            "source_commits": [],
            "add_only": True,
        },
        "engines": [{
            "name": "symx", "path": "symx/", "serves_properties": sorted(claims),
            "kind_free_text": "symbolic execution of the real Python functions (CPython runs them on proxy values over z3 Real/Int; "
                              "paths enumerated by re-execution with decision prefixes, 16 worker processes; UF abstraction of exp/log/pow "
                              "with anchor refinement; per-path concrete validation against the unpatched functions)",
        }],
        "checks": checks,
        "not_applicable": [{"property_id": k, "reason": v} for k, v in sorted(na.items()) if k not in claims],
        "notes": "exit 0 holds / 1 VIOLATION (replayed on the unpatched code) / 3 inconclusive or harness error. See DESIGN.md.",
    }
    json.dump(man, open(os.path.join(HERE, "MANIFEST.json"), "w"), indent=1)
    print("claimed:", sorted(claims), "n/a:", sorted(k for k in na if k not in claims))


if __name__ == "__main__":
    main()
