#!/bin/sh
# usage: tools/seedtest.sh <patch.diff> <PROPERTY> [extra check args]   -- applies a seeded change to /repo, runs the check, reverts
P=$1; shift; PROP=$1; shift
cd /repo || exit 9
git diff --quiet || { echo "repo dirty"; exit 9; }
if ! git apply "$P" 2>/dev/null; then
  patch -p1 --fuzz=3 -s < "$P" || { echo "PATCH DOES NOT APPLY"; git checkout -- . ; git clean -fdq -- aquacrop tests; exit 9; }
fi
cd /verif && ./check $PROP --tier quick --no-evidence "$@" 2>&1 | grep -E "^\[C|VIOLATION|INCONCLUSIVE|KNOWN" | cut -c1-260 | head -8
rc=$?
cd /repo && git checkout -- . && git clean -fdq -- aquacrop tests
