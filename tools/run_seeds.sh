#!/bin/bash
# runs the quick check of the targeted property against every seeded change (applied to /repo, reverted afterwards)
out=${1:-/tmp/seed/results.tsv}
: > $out
for d in ${SEEDROOT:-/tmp/seed}/C*/out/*; do
  wt=${d%/out/*}; id=$(basename $wt); k=$(basename $d)
  cd /repo || exit 9
  git diff --quiet || { echo "repo dirty"; exit 9; }
  P=$d/patch.rebased.diff
  git apply $P || { echo -e "$id\t$k\tAPPLYFAIL" >> $out; git checkout -q -- .; continue; }
  cd /verif
  t0=$(date +%s)
  ./check $id --tier quick --no-evidence > ${SEEDROOT:-/tmp/seed}/check_${id}_$k.log 2>&1; rc=$?
  t1=$(date +%s)
  v=$(grep -c "^VIOLATION" ${SEEDROOT:-/tmp/seed}/check_${id}_$k.log)
  first=$(grep "^VIOLATION" ${SEEDROOT:-/tmp/seed}/check_${id}_$k.log | head -1 | sed 's/.*replays\///' | cut -c1-150)
  echo -e "$id\t$k\trc=$rc\tviolations=$v\t$((t1-t0))s\t$first" >> $out
  cd /repo && git checkout -q -- . && git clean -fdq -- aquacrop tests
done
cat $out
