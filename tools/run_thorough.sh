#!/bin/bash
# runs every property's thorough command once, cheapest first; one summary line per property
for p in ${PROPS:-C07 C09 C15 C08 C14 C19 C13 C06 C17 C02 C05 C20 C12 C16 C01 C03 C04}; do
  t0=$(date +%s)
  ./check $p --tier thorough > thorough_$p.log 2>&1; rc=$?
  t1=$(date +%s)
  echo "$p rc=$rc $((t1-t0))s $(grep -E '^\[C' thorough_$p.log | cut -c1-220)"
  grep -E "^INCONCLUSIVE|^VIOLATION|^KNOWN" thorough_$p.log | head -5 | cut -c1-300
done
