#!/bin/bash
# Confirms every seeded change in its scratch worktree (rebased onto /repo's current HEAD):
# patch applies, the 33 tests pass, demo FAILS with the patch and PASSES without. Writes ${SEEDROOT:-/tmp/seed}/confirm.tsv
HEAD=$(git -C /repo rev-parse HEAD)
: > ${SEEDROOT:-/tmp/seed}/confirm.tsv
for d in ${SEEDROOT:-/tmp/seed}/C*/out/*; do
  wt=${d%/out/*}; id=$(basename $wt); k=$(basename $d)
  cd $wt || continue
  git checkout -q -- . 2>/dev/null; git checkout -q --detach $HEAD 2>/dev/null
  ap=ok
  if ! git apply $d/patch.diff 2>/dev/null; then
     if patch -p1 --fuzz=3 -s < $d/patch.diff >/dev/null 2>&1; then ap=fuzz; else ap=FAIL; git checkout -q -- .; git clean -fdq -- aquacrop; fi
  fi
  if [ $ap = FAIL ]; then echo -e "$id\t$k\tapply=FAIL" >> ${SEEDROOT:-/tmp/seed}/confirm.tsv; continue; fi
  git diff -- aquacrop > $d/patch.rebased.diff
  t=$(/venv/bin/python -W ignore -m pytest -q -p no:cacheprovider -x 2>&1 | tail -1)
  /venv/bin/python -W ignore $d/demo.py > $d/demo.patched.out 2>&1; r1=$?
  git checkout -q -- .; git clean -fdq -- aquacrop
  /venv/bin/python -W ignore $d/demo.py > $d/demo.clean.out 2>&1; r0=$?
  echo -e "$id\t$k\tapply=$ap\ttests=[$t]\tdemo_patched_rc=$r1\tdemo_clean_rc=$r0" >> ${SEEDROOT:-/tmp/seed}/confirm.tsv
done
cat ${SEEDROOT:-/tmp/seed}/confirm.tsv
