#!/bin/bash
# like run_seeds.sh but leaves /repo alone: the patch is applied in the seed's own worktree and the checks import aquacrop from there
root=${SEEDROOT:?set SEEDROOT to a directory of <ID>/out/<k>/ seed folders with their own git worktrees}; out=$root/results.tsv; : > $out
for d in $root/C*/out/*; do
  wt=${d%/out/*}; id=$(basename $wt); k=$(basename $d)
  cd $wt && git checkout -q -- . && git apply $d/patch.diff || { echo -e "$id\t$k\tAPPLYFAIL" >> $out; continue; }
  cd /verif; t0=$(date +%s)
  PYTHONPATH=$wt AQUACROP_VERIF=1 .venv/bin/python -W ignore vcheck.py $id --tier quick --no-evidence > $root/check_${id}_$k.log 2>&1; rc=$?
  t1=$(date +%s)
  v=$(grep -c "^VIOLATION" $root/check_${id}_$k.log); first=$(grep "^VIOLATION" $root/check_${id}_$k.log | head -1 | sed 's/.*replays\///' | cut -c1-150)
  echo -e "$id\t$k\trc=$rc\tviolations=$v\t$((t1-t0))s\t$first" >> $out
  cd $wt && git checkout -q -- .
done
cat $out
