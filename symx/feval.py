"""Float evaluation of z3 terms (independent concrete interpretation of the symbolic outputs)."""
import math
import z3


class FevalError(Exception):
    pass


def feval(t, env, defs=None):
    cache = {}
    return _ev(t, env, defs or {}, cache)


def _ev(t, env, defs, cache):
    tid = t.get_id()
    if tid in cache:
        return cache[tid]
    r = _ev1(t, env, defs, cache)
    cache[tid] = r
    return r


def _ev1(t, env, defs, cache):
    if z3.is_rational_value(t):
        return t.numerator_as_long() / t.denominator_as_long()
    if z3.is_int_value(t):
        return t.as_long()
    if z3.is_true(t):
        return True
    if z3.is_false(t):
        return False
    if not z3.is_app(t):
        raise FevalError(f"unsupported term {t.sexpr()[:80]}")
    d = t.decl()
    k = d.kind()
    name = d.name()
    ch = t.children()
    if k == z3.Z3_OP_UNINTERPRETED and not ch:
        if name in env:
            return env[name]
        if name in defs:
            kind, term = defs[name]
            if kind == "round":
                v = _ev(term, env, defs, cache)
                r = round(v)
                env[name] = r
                return r
        raise FevalError(f"no value for {name}")
    E = lambda i: _ev(ch[i], env, defs, cache)
    if k == z3.Z3_OP_ADD:
        return sum(_ev(c, env, defs, cache) for c in ch)
    if k == z3.Z3_OP_SUB:
        r = E(0)
        for i in range(1, len(ch)): r = r - E(i)
        return r
    if k == z3.Z3_OP_UMINUS:
        return -E(0)
    if k == z3.Z3_OP_MUL:
        r = 1
        for c in ch: r = r * _ev(c, env, defs, cache)
        return r
    if k in (z3.Z3_OP_DIV,):
        b = E(1)
        if b == 0: raise FevalError("division by zero in feval")
        return E(0) / b
    if k == z3.Z3_OP_IDIV:
        b = E(1)
        if b == 0: raise FevalError("division by zero in feval")
        return math.floor(E(0) / b) if b > 0 else math.ceil(E(0) / b)
    if k == z3.Z3_OP_MOD:
        b = E(1)
        if b == 0: raise FevalError("mod by zero")
        return E(0) % abs(b)
    if k == z3.Z3_OP_TO_REAL:
        return E(0)
    if k == z3.Z3_OP_TO_INT:
        return math.floor(E(0))
    if k == z3.Z3_OP_ITE:
        return E(1) if E(0) else E(2)
    if k == z3.Z3_OP_LE: return E(0) <= E(1)
    if k == z3.Z3_OP_LT: return E(0) < E(1)
    if k == z3.Z3_OP_GE: return E(0) >= E(1)
    if k == z3.Z3_OP_GT: return E(0) > E(1)
    if k == z3.Z3_OP_EQ:
        a, b = E(0), E(1)
        if isinstance(a, bool) or isinstance(b, bool): return bool(a) == bool(b)
        return abs(a - b) <= 1e-9 * max(1.0, abs(a), abs(b))
    if k == z3.Z3_OP_DISTINCT:
        a, b = E(0), E(1)
        return not (abs(a - b) <= 1e-12 * max(1.0, abs(a), abs(b)))
    if k == z3.Z3_OP_AND: return all(_ev(c, env, defs, cache) for c in ch)
    if k == z3.Z3_OP_OR: return any(_ev(c, env, defs, cache) for c in ch)
    if k == z3.Z3_OP_NOT: return not E(0)
    if k == z3.Z3_OP_IMPLIES: return (not E(0)) or E(1)
    if k == z3.Z3_OP_POWER:
        return E(0) ** E(1)
    if k == z3.Z3_OP_UNINTERPRETED:
        try:
            if name == "EXP": return math.exp(E(0))
            if name == "LOG": return math.log(E(0))
            if name == "MUL": return E(0) * E(1)
            if name == "DIV": return E(0) / E(1)
            if name == "SIN": return math.sin(E(0))
            if name.startswith("POW_"): return E(0) ** float(name[4:])
        except (ValueError, ZeroDivisionError, OverflowError) as e:
            raise FevalError(f"{name}: {e}")
    raise FevalError(f"unsupported op {name} kind {k}")
