from .core import (Ctx, ConcCtx, SF, SI, SB, SArr, SNaN, NAN, R, RV, is_sym, And, Or, Not, Implies, If, Abort, PathEnd,
                   AssumptionFailed, EvapSteps, sym_max, sym_min, sym_abs)
from .explore import harness, HARNESSES, active, explore_many, run_concrete, run_path, stubbed, patched, Agg
