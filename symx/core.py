"""symx core: symbolic proxies over z3, executed by CPython on the real aquacrop functions.

The functions under analysis are the function objects imported from /repo; their module
globals `np`, `max`, `min`, `round`, `float`, `int`, `abs`, `range` are rebound (see patch.py) to the
symbolic-aware versions defined here, which coincide with the originals on concrete arguments.

Theories: floats -> z3 Real (concrete constants enter as the exact binary rational of the
double), ints -> z3 Int, exp/log/pow -> uninterpreted functions with ground axioms and
concrete anchors, optional abstraction of symbolic products/quotients (MUL/DIV).
"""
import math
import builtins
import operator
import types
from fractions import Fraction

import numpy as _np
import z3


class Abort(BaseException):
    """Path cannot be represented -> path outcome 'aborted' -> harness inconclusive."""


class PathEnd(BaseException):
    """Path ended deliberately (hazard side, bound exceeded...)."""

    def __init__(self, kind, msg=""):
        self.kind = kind
        self.msg = msg
        super().__init__(f"{kind}: {msg}")


class AssumptionFailed(BaseException):
    """Concrete mode: the concrete inputs do not satisfy an assumption."""


# --------------------------------------------------------------------------- conversion
_RV_CACHE = {}


def RV(x):
    """exact z3 real numeral of a python number"""
    if isinstance(x, (bool, _np.bool_)):
        return z3.RealVal(1 if x else 0)
    if isinstance(x, (int, _np.integer)):
        return z3.RealVal(int(x))
    if isinstance(x, Fraction):
        return z3.RealVal(f"{x.numerator}/{x.denominator}")
    f = float(x)
    r = _RV_CACHE.get(f)
    if r is None:
        if math.isnan(f) or math.isinf(f):
            raise Abort("non-finite concrete value enters the solver")
        fr = Fraction(f)
        r = z3.RealVal(f"{fr.numerator}/{fr.denominator}")
        if len(_RV_CACHE) < 100000:
            _RV_CACHE[f] = r
    return r


def R(x):
    """to z3 real term"""
    if isinstance(x, SF):
        return x.e
    if isinstance(x, SB):
        return z3.If(x.e, z3.RealVal(1), z3.RealVal(0))
    if isinstance(x, SNaN):
        raise Abort("NaN enters arithmetic with no token semantics")
    if isinstance(x, (_np.ndarray,)) and x.ndim == 0:
        x = x.item()
    return RV(x)


def is_sym(x):
    return isinstance(x, (SF, SB, SNaN))


def cur():
    c = Ctx.cur
    if c is None:
        raise Abort("symbolic value used outside an exploration context")
    return c


# --------------------------------------------------------------------------- NaN token
class SNaN:
    """IEEE NaN token: arithmetic gives NaN, every ordered comparison is False."""
    _inst = None

    def __new__(cls):
        if cls._inst is None:
            cls._inst = object.__new__(cls)
        return cls._inst

    def _a(self, *o):
        return self
    __add__ = __radd__ = __sub__ = __rsub__ = __mul__ = __rmul__ = _a
    __truediv__ = __rtruediv__ = __pow__ = __rpow__ = __neg__ = __pos__ = __abs__ = _a

    def _f(self, o):
        return False
    __lt__ = __le__ = __gt__ = __ge__ = __eq__ = _f

    def __ne__(self, o):
        return True
    __hash__ = None

    def __float__(self):
        return float("nan")

    def __round__(self, n=None):
        return self

    def __repr__(self):
        return "SNaN"
    __array_priority__ = 3000
    __array_ufunc__ = None


NAN = SNaN()


# --------------------------------------------------------------------------- booleans
class SB:
    __slots__ = ("e",)

    def __init__(self, e):
        self.e = e

    def __bool__(self):
        return cur().branch(self.e)

    def __eq__(self, o):
        if isinstance(o, (bool, _np.bool_)):
            return self if o else SB(z3.Not(self.e))
        if isinstance(o, SB):
            return SB(self.e == o.e)
        if isinstance(o, (int, _np.integer)):
            return self if o == 1 else (SB(z3.Not(self.e)) if o == 0 else False)
        return NotImplemented

    def __ne__(self, o):
        r = self.__eq__(o)
        if r is NotImplemented:
            return r
        if isinstance(r, SB):
            return SB(z3.Not(r.e))
        return not r

    def __invert__(self):
        return SB(z3.Not(self.e))

    def __and__(self, o):
        return SB(z3.And(self.e, _B(o)))
    __rand__ = __and__

    def __or__(self, o):
        return SB(z3.Or(self.e, _B(o)))
    __ror__ = __or__
    __hash__ = None
    __array_priority__ = 1000
    __array_ufunc__ = None

    def __repr__(self):
        return f"SB({self.e})"


def _B(o):
    if isinstance(o, SB):
        return o.e
    return z3.BoolVal(bool(o))


def sb(x):
    """wrap bool or SB to SB"""
    return x if isinstance(x, SB) else SB(z3.BoolVal(bool(x)))


def And(*xs):
    if not any(isinstance(x, SB) for x in xs):
        return all(bool(x) for x in xs)
    return SB(z3.And(*[_B(x) for x in xs]))


def Or(*xs):
    if not any(isinstance(x, SB) for x in xs):
        return any(bool(x) for x in xs)
    return SB(z3.Or(*[_B(x) for x in xs]))


def Not(x):
    if not isinstance(x, SB):
        return not bool(x)
    return SB(z3.Not(_B(x)))


def Implies(a, b):
    if not (isinstance(a, SB) or isinstance(b, SB)):
        return (not bool(a)) or bool(b)
    return SB(z3.Implies(_B(a), _B(b)))


def If(c, a, b):
    """symbolic if-then-else over reals"""
    if not isinstance(c, SB):
        return a if c else b
    return SF(z3.If(c.e, R(a), R(b)))


# --------------------------------------------------------------------------- floats
def _num(o):
    return isinstance(o, (int, float, _np.integer, _np.floating, bool, _np.bool_, SF, SB)) or (
        isinstance(o, _np.ndarray) and o.ndim == 0)


class SF:
    __slots__ = ("e",)

    def __init__(self, e):
        self.e = e

    # arithmetic
    def __add__(self, o):
        if isinstance(o, SNaN): return NAN
        if isinstance(o, (SArr, _np.ndarray)) and not _num(o): return SArr(o).__radd__(self)
        return SF(self.e + R(o))

    def __radd__(self, o):
        if isinstance(o, SNaN): return NAN
        return SF(R(o) + self.e)

    def __sub__(self, o):
        if isinstance(o, SNaN): return NAN
        if isinstance(o, (SArr, _np.ndarray)) and not _num(o): return SArr(o).__rsub__(self)
        return SF(self.e - R(o))

    def __rsub__(self, o):
        if isinstance(o, SNaN): return NAN
        return SF(R(o) - self.e)

    def __mul__(self, o):
        if isinstance(o, SNaN): return NAN
        if isinstance(o, (SArr, _np.ndarray)) and not _num(o): return SArr(o).__rmul__(self)
        return SF(nl_mul(self.e, R(o)))

    def __rmul__(self, o):
        if isinstance(o, SNaN): return NAN
        return SF(nl_mul(R(o), self.e))

    def __neg__(self): return SF(-self.e)
    def __pos__(self): return self
    def __abs__(self): return SF(z3.If(self.e >= 0, self.e, -self.e))

    def __truediv__(self, o):
        if isinstance(o, SNaN): return NAN
        if isinstance(o, SI):
            o = cur().enum_int(o)
        d = R(o)
        _divguard(d)
        return SF(nl_div(self.e, d))

    def __rtruediv__(self, o):
        if isinstance(o, SNaN): return NAN
        if isinstance(self, SI):
            v = cur().enum_int(self)
            return o / v
        _divguard(self.e)
        return SF(nl_div(R(o), self.e))

    def __pow__(self, o):
        if isinstance(o, (int, _np.integer)) or (isinstance(o, (float, _np.floating)) and float(o).is_integer()):
            n = int(o)
            if n == 0: return 1.0
            if 0 < n <= 3:
                r = self
                for _ in range(n - 1): r = r * self
                return r
        return uf_pow(self, o)

    def __rpow__(self, o):
        return uf_pow(o, self)

    # comparisons
    def __lt__(self, o):
        if isinstance(o, SNaN): return False
        return SB(self.e < R(o))

    def __le__(self, o):
        if isinstance(o, SNaN): return False
        return SB(self.e <= R(o))

    def __gt__(self, o):
        if isinstance(o, SNaN): return False
        return SB(self.e > R(o))

    def __ge__(self, o):
        if isinstance(o, SNaN): return False
        return SB(self.e >= R(o))

    def __eq__(self, o):
        if isinstance(o, SNaN) or o is None or isinstance(o, str): return False
        return SB(self.e == R(o))

    def __ne__(self, o):
        if isinstance(o, SNaN) or o is None or isinstance(o, str): return True
        return SB(self.e != R(o))
    __hash__ = None

    def __float__(self):
        raise Abort("float() realisation of a symbolic value inside C code")

    def __int__(self):
        raise Abort("int() of a symbolic float")

    def __index__(self):
        raise Abort("symbolic value used as an index")

    def __round__(self, n=None):
        return sym_round(self, n)

    def __repr__(self):
        return f"SF({self.e})"
    # numpy compat
    __array_priority__ = 1000

    def __array_ufunc__(self, ufunc, method, *inputs, **kw):
        m = _UFUNC_MAP
        if method == "__call__" and ufunc in m and len(inputs) == 2:
            a, b = inputs
            if isinstance(a, _np.generic) or (isinstance(a, _np.ndarray) and a.ndim == 0): a = a.item()
            if isinstance(b, _np.generic) or (isinstance(b, _np.ndarray) and b.ndim == 0): b = b.item()
            if isinstance(a, _np.ndarray) or isinstance(b, _np.ndarray):
                A = SArr(a) if isinstance(a, _np.ndarray) else a
                B = SArr(b) if isinstance(b, _np.ndarray) else b
                return m[ufunc](A, B)
            return m[ufunc](a, b)
        return NotImplemented


class SI(SF):
    """symbolic integer: Int term .i, used as Real (.e) when mixed with floats."""
    __slots__ = ("i",)

    def __init__(self, i):
        self.i = i
        self.e = z3.ToReal(i)

    @staticmethod
    def _i(o):
        if isinstance(o, SI): return o.i
        if isinstance(o, (bool, _np.bool_)): return z3.IntVal(int(o))
        if isinstance(o, (int, _np.integer)): return z3.IntVal(int(o))
        return None

    def __add__(self, o):
        i = SI._i(o)
        return SI(self.i + i) if i is not None else SF.__add__(self, o)

    def __radd__(self, o):
        i = SI._i(o)
        return SI(i + self.i) if i is not None else SF.__radd__(self, o)

    def __sub__(self, o):
        i = SI._i(o)
        return SI(self.i - i) if i is not None else SF.__sub__(self, o)

    def __rsub__(self, o):
        i = SI._i(o)
        return SI(i - self.i) if i is not None else SF.__rsub__(self, o)

    def __mul__(self, o):
        i = SI._i(o)
        if i is not None and not isinstance(o, SI): return SI(self.i * i)
        return SF.__mul__(self, o)

    def __rmul__(self, o):
        i = SI._i(o)
        if i is not None and not isinstance(o, SI): return SI(i * self.i)
        return SF.__rmul__(self, o)

    def __neg__(self): return SI(-self.i)

    def __mod__(self, o):
        i = SI._i(o)
        if i is None: raise Abort("modulo with non-integer")
        c = cur()
        if c.feasible(i <= 0):
            c.hazard("mod-nonpositive", str(i))
            c.add(i > 0)
        return SI(self.i % i)

    def __floordiv__(self, o):
        i = SI._i(o)
        if i is None: raise Abort("floordiv with non-integer")
        c = cur()
        if c.feasible(i <= 0):
            c.hazard("floordiv-nonpositive", str(i))
            c.add(i > 0)
        return SI(self.i / i)

    def _cmp(self, o, op):
        if isinstance(o, SNaN): return op is operator.ne
        i = SI._i(o)
        if i is not None: return SB(op(self.i, i))
        if o is None or isinstance(o, str): return op is operator.ne
        return SB(op(self.e, R(o)))

    def __lt__(self, o): return self._cmp(o, operator.lt)
    def __le__(self, o): return self._cmp(o, operator.le)
    def __gt__(self, o): return self._cmp(o, operator.gt)
    def __ge__(self, o): return self._cmp(o, operator.ge)
    def __eq__(self, o): return self._cmp(o, operator.eq)
    def __ne__(self, o): return self._cmp(o, operator.ne)
    __hash__ = None

    def __round__(self, n=None):
        return self

    @property
    def days(self):
        """dates are day ordinals in the clock harnesses: a difference of two dates is its own number of days"""
        return self

    def __int__(self):
        raise Abort("int() of a symbolic int (concretisation)")

    def __index__(self):
        raise Abort("symbolic int used as an index")

    def __repr__(self):
        return f"SI({self.i})"


# --------------------------------------------------------------------------- non-linear
_MUL = z3.Function("MUL", z3.RealSort(), z3.RealSort(), z3.RealSort())
_DIV = z3.Function("DIV", z3.RealSort(), z3.RealSort(), z3.RealSort())


def _isnum(e):
    return z3.is_rational_value(e) or z3.is_int_value(e)


def nl_mul(a, b):
    c = Ctx.cur
    if c is None or not c.abstract_nl:
        return a * b
    a = z3.simplify(a); b = z3.simplify(b)
    if _isnum(a) or _isnum(b):
        return a * b
    if a.get_id() > b.get_id():
        a, b = b, a
    m = _MUL(a, b)
    key = ("mul", m.get_id())
    if key not in c.nl_seen:
        # products sharing a factor are monotone in the other one
        for k2, (kk, a2, b2, m2) in list(c.nl_seen.items()):
            if kk != "mul":
                continue
            for (x, y, x2, y2) in ((a, b, a2, b2), (a, b, b2, a2), (b, a, a2, b2), (b, a, b2, a2)):
                if y.get_id() == y2.get_id():
                    c.add(z3.Implies(z3.And(y >= 0, x <= x2), m <= m2), z3.Implies(z3.And(y >= 0, x >= x2), m >= m2),
                          z3.Implies(z3.And(y <= 0, x <= x2), m >= m2), z3.Implies(z3.And(y <= 0, x >= x2), m <= m2))
                    break
        c.nl_seen[key] = ("mul", a, b, m)
        c.add(z3.Implies(z3.Or(a == 0, b == 0), m == 0),
              z3.Implies(z3.And(a > 0, b > 0), m > 0), z3.Implies(z3.And(a < 0, b < 0), m > 0),
              z3.Implies(z3.And(a > 0, b < 0), m < 0), z3.Implies(z3.And(a < 0, b > 0), m < 0),
              z3.Implies(a == 1, m == b), z3.Implies(b == 1, m == a),
              z3.Implies(z3.And(a >= 0, a <= 1, b >= 0), m <= b), z3.Implies(z3.And(b >= 0, b <= 1, a >= 0), m <= a),
              z3.Implies(z3.And(a >= 1, b >= 0), m >= b), z3.Implies(z3.And(b >= 1, a >= 0), m >= a))
    return m


def nl_div(a, b):
    c = Ctx.cur
    if c is None or not c.abstract_nl:
        return a / b
    a = z3.simplify(a); b = z3.simplify(b)
    if _isnum(b):
        return a / b
    d = _DIV(a, b)
    key = ("div", d.get_id())
    if key not in c.nl_seen:
        # quotients over the same denominator are monotone in the numerator
        for k2, (kk, a2, b2, d2) in list(c.nl_seen.items()):
            if kk == "div" and b2.get_id() == b.get_id():
                c.add(z3.Implies(z3.And(b > 0, a <= a2), d <= d2), z3.Implies(z3.And(b > 0, a >= a2), d >= d2),
                      z3.Implies(z3.And(b < 0, a <= a2), d >= d2), z3.Implies(z3.And(b < 0, a >= a2), d <= d2))
        c.nl_seen[key] = ("div", a, b, d)
        c.add(z3.Implies(a == 0, d == 0), z3.Implies(z3.And(a > 0, b > 0), d > 0), z3.Implies(z3.And(a < 0, b > 0), d < 0),
              z3.Implies(z3.And(a > 0, b < 0), d < 0), z3.Implies(z3.And(a < 0, b < 0), d > 0), z3.Implies(a == b, d == 1),
              z3.Implies(z3.And(b > 0, a <= b, a >= 0), d <= 1), z3.Implies(z3.And(b > 0, a >= b), d >= 1),
              z3.Implies(b == 1, d == a))
    return d


def _divguard(d):
    c = cur()
    d = z3.simplify(d)
    if z3.is_rational_value(d):
        if d.numerator_as_long() == 0:
            c.hazard("div0", "concrete zero divisor")
            raise PathEnd("hazard", "division by concrete zero")
        return
    if c.feasible(d == 0):
        c.hazard("div0", str(d)[:120], with_model=True)
    c.add(d != 0)


def sym_round(x, n=None):
    if isinstance(x, SNaN):
        return x
    if isinstance(x, SI):
        return x
    if not isinstance(x, SF):
        return builtins.round(x, n) if n is not None else builtins.round(x)
    c = cur()
    k = c.newint("rnd")
    scale = 10 ** (n or 0)
    xs = x.e * scale
    c.add(z3.ToReal(k) - z3.RealVal("1/2") <= xs, xs <= z3.ToReal(k) + z3.RealVal("1/2"))
    c.defs[str(k)] = ("round", xs)
    if n is None:
        return SI(k)
    # a rounded value that can take only a few values (e.g. a rooting depth in cm) is usually compared with grid
    # constants such as 0.3: enumerate it so that the result is the same double the real round() returns.
    if c.round_enum and not c.feasible(z3.Or(xs > c.round_enum, xs < -c.round_enum)):
        v = c.enum_int(SI(k))
        return v / scale
    return SF(z3.ToReal(k) / scale)


def sym_max2(a, b):
    # python semantics: max(a, b) = b if b > a else a
    if isinstance(a, SNaN) or isinstance(b, SNaN):
        return a
    if not (is_sym(a) or is_sym(b)):
        return builtins.max(a, b)
    if isinstance(a, SI) and isinstance(b, (SI, int, _np.integer)) or isinstance(b, SI) and isinstance(a, (int, _np.integer)):
        ia, ib = SI._i(a), SI._i(b)
        return SI(z3.If(ib > ia, ib, ia))
    ea, eb = R(a), R(b)
    return SF(z3.If(eb > ea, eb, ea))


def sym_min2(a, b):
    if isinstance(a, SNaN) or isinstance(b, SNaN):
        return a
    if not (is_sym(a) or is_sym(b)):
        return builtins.min(a, b)
    if isinstance(a, SI) and isinstance(b, (SI, int, _np.integer)) or isinstance(b, SI) and isinstance(a, (int, _np.integer)):
        ia, ib = SI._i(a), SI._i(b)
        return SI(z3.If(ib < ia, ib, ia))
    ea, eb = R(a), R(b)
    return SF(z3.If(eb < ea, eb, ea))


def _seq(a):
    if len(a) == 1 and isinstance(a[0], (list, tuple, SArr, _np.ndarray)):
        return list(a[0])
    return list(a)


def sym_max(*a, **kw):
    a = _seq(a)
    if not any(is_sym(x) for x in a):
        return builtins.max(a, **kw)
    r = a[0]
    for x in a[1:]:
        r = sym_max2(r, x)
    return r


def sym_min(*a, **kw):
    a = _seq(a)
    if not any(is_sym(x) for x in a):
        return builtins.min(a, **kw)
    r = a[0]
    for x in a[1:]:
        r = sym_min2(r, x)
    return r


def sym_abs(x):
    if is_sym(x):
        return x.__abs__()
    return builtins.abs(x)


def sym_float(x=0.0):
    if isinstance(x, (SF, SNaN)):
        return x
    return builtins.float(x)


class EvapSteps:
    """token for ClockStruct.evap_time_steps: arithmetic value `full`, loop count `k` (bounded unrolling
    of the sub-daily evaporation loop with the true sub-step size)."""

    def __init__(self, full, k):
        self.full = full
        self.k = k

    def __rtruediv__(self, o):
        return o / self.full

    def __float__(self):
        return float(self.full)

    def __int__(self):
        return self.k
    __array_priority__ = 5000
    __array_ufunc__ = None


def sym_int(x=0):
    if isinstance(x, SI):
        return x
    if isinstance(x, SF):
        raise Abort("int() of symbolic float")
    return builtins.int(x)


class SymRange:
    """range(n) with symbolic n: iteration forks on 'n > i'; [-1] is n-1"""

    def __init__(self, n):
        self.n = n

    def __iter__(self):
        i = 0
        while True:
            if bool(self.n > i):
                yield i
                i += 1
            else:
                return

    def __getitem__(self, k):
        if k == -1:
            return self.n - 1
        raise Abort("SymRange index")

    def __len__(self):
        raise Abort("len of symbolic range")


def sym_range(*a):
    if any(isinstance(x, SI) for x in a):
        if len(a) != 1:
            raise Abort("symbolic range with start/step")
        return SymRange(a[0])
    return builtins.range(*a)


# --------------------------------------------------------------------------- UF exp/log/pow
_EXP = z3.Function("EXP", z3.RealSort(), z3.RealSort())
_LOG = z3.Function("LOG", z3.RealSort(), z3.RealSort())
_POW = {}
EPS = 2.0 ** -46


def _lohi(v):
    v = float(v)
    d = abs(v) * EPS + 1e-300
    return RV(v - d), RV(v + d)


def _register(kind, arg, app, mono):
    c = cur()
    lst = c.uf_terms.setdefault(kind, [])
    for (a2, app2) in lst:
        if a2.get_id() == arg.get_id():
            return False
    for (a2, app2) in lst:
        if mono > 0:
            c.add(z3.Implies(arg < a2, app < app2), z3.Implies(arg > a2, app > app2))
        elif mono < 0:
            c.add(z3.Implies(arg < a2, app > app2), z3.Implies(arg > a2, app < app2))
    lst.append((arg, app))
    return True


def _anchor(kind, x, v):
    c = Ctx.cur
    if c is None:
        return
    c.anchors.setdefault(kind, {})[float(x)] = float(v)
    c.anchors_dirty = True


def uf_exp(x):
    if isinstance(x, SNaN):
        return x
    if isinstance(x, (SArr,)):
        return SArr([uf_exp(v) for v in x.v])
    if not is_sym(x):
        v = _np.exp(x)
        if isinstance(x, (float, int, _np.floating, _np.integer)):
            _anchor("exp", x, v)
        return v
    c = cur()
    a = z3.simplify(x.e)
    if _isnum(a):
        v = math.exp(float(a.as_fraction()))
        return v
    app = _EXP(a)
    for (a2, app2) in c.uf_terms.get("exp", []):
        # exp(x) * exp(-x) = 1 for syntactically opposite arguments (links the two branches of the canopy growth curve)
        z = z3.simplify(a + a2)
        if _isnum(z) and z.as_fraction() == 0 and a2.get_id() != a.get_id():
            k = ("exppair", min(a.get_id(), a2.get_id()), max(a.get_id(), a2.get_id()))
            if k not in c.nl_pairs:
                c.nl_pairs.add(k)
                c.add(app * app2 == 1)
    if _register("exp", a, app, +1):
        c.add(app > 0, app >= 1 + a,
              z3.Implies(a == 0, app == 1), z3.Implies(a > 0, app > 1), z3.Implies(a < 0, app < 1))
        if not c.abstract_nl:
            c.add(z3.Implies(a < 1, app * (1 - a) <= 1))
        c.anchors_dirty = True
    return SF(app)


def uf_log(x):
    if isinstance(x, SNaN):
        return x
    if not is_sym(x):
        if isinstance(x, (float, int, _np.floating, _np.integer)) and x <= 0:
            c = Ctx.cur
            if c is not None:
                c.hazard("log-domain", f"log({x})")
                if x < 0:
                    return NAN
                raise PathEnd("hazard", "log(0)")
        v = _np.log(x)
        if isinstance(x, (float, int, _np.floating, _np.integer)):
            _anchor("log", x, v)
        return v
    c = cur()
    a = z3.simplify(x.e)
    if _isnum(a):
        return uf_log(float(a.as_fraction()))
    if c.feasible(a <= 0):
        c.hazard("log-domain", str(a)[:120], with_model=True)
        if not c.branch(a > 0):
            # IEEE: log(negative) = NaN ; log(0) = -inf is not modelled
            if c.feasible(a == 0):
                c.hazard("log-zero", str(a)[:120])
            c.add(a < 0)
            return NAN
    app = _LOG(a)
    if _register("log", a, app, +1):
        c.add(app <= a - 1, z3.Implies(a == 1, app == 0), z3.Implies(a > 1, app > 0), z3.Implies(a < 1, app < 0))
        if not c.abstract_nl:
            c.add(app * a >= a - 1)   # log a >= 1 - 1/a
        e = _EXP(app)
        c.add(e == a)
        _register("exp", app, e, +1)
        c.anchors_dirty = True
    return SF(app)


def _powf(p):
    f = _POW.get(p)
    if f is None:
        f = _POW[p] = z3.Function(f"POW_{p!r}", z3.RealSort(), z3.RealSort())
    return f


def uf_pow(b, p):
    if isinstance(b, SNaN) or isinstance(p, SNaN):
        return NAN
    if not (is_sym(b) or is_sym(p)):
        return _np.power(b, p)
    if is_sym(p):
        raise Abort("symbolic exponent")
    c = cur()
    p = float(p)
    if p == 1.0:
        return b
    if p == 0.0:
        return 1.0
    a = z3.simplify(b.e)
    if _isnum(a):
        return float(a.as_fraction()) ** p
    if c.feasible(a < 0):
        c.hazard("pow-domain", str(a)[:120], with_model=True)
        if not c.branch(a >= 0):
            return NAN
    kind = f"pow{p!r}"
    app = _powf(p)(a)
    if _register(kind, a, app, 1 if p > 0 else -1):
        if p > 0:
            c.add(app >= 0, z3.Implies(a == 0, app == 0), z3.Implies(a == 1, app == 1),
                  z3.Implies(a < 1, app < 1), z3.Implies(a > 1, app > 1), z3.Implies(a > 0, app > 0))
            if p > 1:
                c.add(z3.Implies(a <= 1, app <= a), z3.Implies(a >= 1, app >= a))
            else:
                c.add(z3.Implies(a <= 1, app >= a), z3.Implies(a >= 1, app <= a))
        else:
            if c.feasible(a == 0):
                c.hazard("pow-zero-negexp", str(a)[:120])
            c.add(a > 0, app > 0, z3.Implies(a == 1, app == 1), z3.Implies(a < 1, app > 1), z3.Implies(a > 1, app < 1))
        c.anchors_dirty = True
    return SF(app)


def uf_sin(x):
    if not is_sym(x):
        return _np.sin(x)
    c = cur()
    f = _POW.setdefault("sin", z3.Function("SIN", z3.RealSort(), z3.RealSort()))
    app = f(z3.simplify(x.e))
    c.add(app >= -1, app <= 1)
    return SF(app)


TRUE_FUN = {"exp": math.exp, "log": math.log}


def true_value(kind, x):
    if kind in TRUE_FUN:
        return TRUE_FUN[kind](x)
    if kind.startswith("pow"):
        return x ** float(kind[3:])
    raise KeyError(kind)


# --------------------------------------------------------------------------- arrays
class SArr:
    """1-D array of floats / SF with the slice of the numpy API the model uses. Basic slices are *views* (writes go to the
    parent's storage, as in numpy); mask / integer-array indexing gives copies."""

    def __init__(self, items, _store=None, _ix=None):
        if _store is not None:
            self._s = _store
            self._ix = _ix
            return
        if isinstance(items, SArr):
            items = items.v
        self._s = [x.item() if isinstance(x, _np.generic) else x for x in items]
        self._ix = None

    @property
    def v(self):
        return self._s if self._ix is None else [self._s[i] for i in self._ix]

    def _pos(self, k):
        k = int(k)
        n = len(self)
        if k < 0:
            k += n
        if not (0 <= k < n):
            raise IndexError(f"index {k} is out of bounds for axis 0 with size {n}")
        return k if self._ix is None else self._ix[k]

    @property
    def shape(self): return (len(self.v),)
    @property
    def ndim(self): return 1
    @property
    def size(self): return len(self.v)
    def __len__(self): return len(self._s) if self._ix is None else len(self._ix)
    def __iter__(self): return iter(self.v)

    def __getitem__(self, i):
        if isinstance(i, SF):
            raise Abort("symbolic index")
        if isinstance(i, (int, _np.integer)):
            return self._s[self._pos(i)]
        if isinstance(i, slice):
            base = list(builtins.range(len(self._s))) if self._ix is None else self._ix
            return SArr(None, _store=self._s, _ix=base[i])
        if isinstance(i, (_np.ndarray, list, SArr)):
            li = list(i)
            if any(isinstance(x, SB) for x in li):
                li = [bool(x) for x in li]
            idx = _np.asarray(li)
            if idx.dtype == bool:
                return SArr([x for x, m in zip(self.v, idx) if m])
            return SArr([self.v[int(k)] for k in idx])
        raise TypeError(f"SArr index {i!r}")

    def __setitem__(self, i, val):
        if isinstance(i, SF):
            raise Abort("symbolic index")
        if isinstance(val, _np.generic):
            val = val.item()
        if isinstance(i, (int, _np.integer)):
            self._s[self._pos(i)] = val
            return
        if isinstance(i, slice):
            idxs = list(builtins.range(*i.indices(len(self))))
        elif isinstance(i, (_np.ndarray, list, SArr)):
            li = list(i)
            if any(isinstance(x, SB) for x in li):
                li = [bool(x) for x in li]
            a = _np.asarray(li)
            idxs = [k for k, m in enumerate(a) if m] if a.dtype == bool else [int(k) for k in a]
        else:
            raise TypeError(f"SArr index {i!r}")
        if isinstance(val, (SArr, list, _np.ndarray)):
            vals = list(val)
            assert len(vals) == len(idxs)
        else:
            vals = [val] * len(idxs)
        for k, x in zip(idxs, vals):
            self._s[self._pos(k)] = x.item() if isinstance(x, _np.generic) else x

    def _bin(self, o, f):
        if isinstance(o, (SArr, _np.ndarray, list)) and not (isinstance(o, _np.ndarray) and o.ndim == 0):
            o = list(o)
            if len(o) != len(self.v):
                raise ValueError(f"operands could not be broadcast together with shapes ({len(self.v)},) ({len(o)},)")
            return SArr([f(a, b) for a, b in zip(self.v, o)])
        return SArr([f(a, o) for a in self.v])

    def __mul__(self, o): return self._bin(o, lambda a, b: a * b)
    def __rmul__(self, o): return self._bin(o, lambda a, b: b * a)
    def __add__(self, o): return self._bin(o, lambda a, b: a + b)
    def __radd__(self, o): return self._bin(o, lambda a, b: b + a)
    def __sub__(self, o): return self._bin(o, lambda a, b: a - b)
    def __rsub__(self, o): return self._bin(o, lambda a, b: b - a)
    def __truediv__(self, o): return self._bin(o, lambda a, b: a / b)
    def __rtruediv__(self, o): return self._bin(o, lambda a, b: b / a)
    def __neg__(self): return SArr([-a for a in self.v])
    def __ge__(self, o): return self._bin(o, lambda a, b: a >= b)
    def __gt__(self, o): return self._bin(o, lambda a, b: a > b)
    def __le__(self, o): return self._bin(o, lambda a, b: a <= b)
    def __lt__(self, o): return self._bin(o, lambda a, b: a < b)
    def __eq__(self, o): return self._bin(o, lambda a, b: a == b)
    def __ne__(self, o): return self._bin(o, lambda a, b: a != b)
    __hash__ = None

    def sum(self):
        r = 0
        for x in self.v: r = r + x
        return r

    def cumsum(self):
        r = 0; out = []
        for x in self.v:
            r = r + x; out.append(r)
        return SArr(out)

    def round(self, n=0): return SArr([sym_round(x, n) for x in self.v])
    def copy(self): return SArr(list(self.v))
    def flatten(self): return self
    def tolist(self): return list(self.v)

    def argmax(self):
        bs = [bool(x) if isinstance(x, SB) else x for x in self.v]
        return int(_np.argmax(_np.array(bs)))

    def __repr__(self): return f"SArr({self.v})"
    __array_priority__ = 2000
    __array_ufunc__ = None


def _sarr_or(a, b, f):
    if isinstance(a, (SArr, _np.ndarray)) and not _num(a):
        return SArr(a)._bin(b, f)
    if isinstance(b, (SArr, _np.ndarray)) and not _num(b):
        return SArr(b)._bin(a, lambda y, x: f(x, y))
    return f(a, b)


_UFUNC_MAP = {
    _np.add: operator.add, _np.subtract: operator.sub, _np.multiply: operator.mul,
    _np.true_divide: operator.truediv, _np.less: operator.lt, _np.less_equal: operator.le,
    _np.greater: operator.gt, _np.greater_equal: operator.ge, _np.equal: operator.eq,
    _np.not_equal: operator.ne, _np.power: operator.pow,
    _np.maximum: lambda a, b: _sarr_or(a, b, _np_max2), _np.minimum: lambda a, b: _sarr_or(a, b, _np_min2),
}


def _np_max2(a, b):
    if isinstance(a, SNaN) or isinstance(b, SNaN): return NAN
    if not (is_sym(a) or is_sym(b)): return _np.maximum(a, b)
    ea, eb = R(a), R(b)
    return SF(z3.If(ea >= eb, ea, eb))


def _np_min2(a, b):
    if isinstance(a, SNaN) or isinstance(b, SNaN): return NAN
    if not (is_sym(a) or is_sym(b)): return _np.minimum(a, b)
    ea, eb = R(a), R(b)
    return SF(z3.If(ea <= eb, ea, eb))


# --------------------------------------------------------------------------- numpy facade
class _NP(types.ModuleType):
    def __getattr__(self, k):
        return getattr(_np, k)


def _anysym(args):
    for a in args:
        if isinstance(a, (SArr, SF, SB, SNaN)):
            return True
        if isinstance(a, (list, tuple)) and any(isinstance(x, (SF, SB, SNaN, SArr)) for x in a):
            return True
    return False


symnp = _NP("symnp")
symnp.exp = uf_exp
symnp.log = uf_log
symnp.power = lambda b, p: uf_pow(b, p) if (is_sym(b) or is_sym(p)) else _np.power(b, p)
symnp.sin = uf_sin


def _log10(x):
    if isinstance(x, SArr): return SArr([_log10(v) for v in x.v])
    if not is_sym(x): return _np.log10(x)
    return uf_log(x) / math.log(10)


symnp.log10 = _log10


def _zeros(n, dtype=None):
    if Ctx.cur is not None and Ctx.cur.symbolic and isinstance(n, (int, _np.integer)):
        return SArr([0.0] * int(n))
    return _np.zeros(n) if dtype is None else _np.zeros(n, dtype=dtype)


def _ones(n, dtype=None):
    if Ctx.cur is not None and Ctx.cur.symbolic and isinstance(n, (int, _np.integer)):
        return SArr([1.0] * int(n))
    return _np.ones(n) if dtype is None else _np.ones(n, dtype=dtype)


symnp.zeros = _zeros
symnp.ones = _ones
symnp.maximum = lambda a, b: _sarr_or(a, b, _np_max2)
symnp.minimum = lambda a, b: _sarr_or(a, b, _np_min2)


def _sum(a, *k, **kw):
    if isinstance(a, SArr):
        if len(a.v) and all(isinstance(x, (bool, _np.bool_, SB)) for x in a.v):
            return int(builtins.sum(1 if bool(x) else 0 for x in a.v))
        return a.sum()
    return _np.sum(a, *k, **kw)


symnp.sum = _sum


def _argwhere(a):
    if isinstance(a, SArr):
        return _np.argwhere(_np.array([bool(x) for x in a.v], dtype=bool))
    return _np.argwhere(a)


symnp.argwhere = _argwhere


def _isnan(x):
    if isinstance(x, SNaN): return True
    if isinstance(x, SArr): return SArr([_isnan(v) for v in x.v])
    if is_sym(x): return False
    return _np.isnan(x)


symnp.isnan = _isnan


def _round(x, n=0):
    if isinstance(x, SArr): return x.round(n)
    if is_sym(x): return sym_round(x, n)
    return _np.round(x, n)


symnp.round = _round


def _array(x, *a, **k):
    if k.get("dtype") is sym_float: k["dtype"] = builtins.float
    if k.get("dtype") is sym_int: k["dtype"] = builtins.int
    if isinstance(x, SArr): return SArr(list(x.v)) if k.get("copy", True) else x
    if isinstance(x, (list, tuple)) and any(is_sym(v) for v in x): return SArr(x)
    return _np.array(x, *a, **k)


symnp.array = _array
symnp.cumsum = lambda a, *k, **kw: a.cumsum() if isinstance(a, SArr) else _np.cumsum(a, *k, **kw)
symnp.abs = lambda a: (SArr([sym_abs(v) for v in a.v]) if isinstance(a, SArr) else (sym_abs(a) if is_sym(a) else _np.abs(a)))
symnp.argmax = lambda a, *k, **kw: a.argmax() if isinstance(a, SArr) else _np.argmax(a, *k, **kw)


def _unique(a, *k, **kw):
    if isinstance(a, SArr): a = _np.array(a.v)
    return _np.unique(a, *k, **kw)


symnp.unique = _unique
symnp.sort = lambda a, *k, **kw: _np.sort(_np.array(a.v) if isinstance(a, SArr) else a, *k, **kw)

PATCH = {"np": symnp, "max": sym_max, "min": sym_min, "round": sym_round, "float": sym_float, "int": sym_int,
         "abs": sym_abs, "range": sym_range}


# --------------------------------------------------------------------------- context
RLIMIT_PER_MS = 4000


class Ctx:
    """Symbolic exploration context (one per worker; re-used across paths)."""
    cur = None
    symbolic = True

    def __init__(self, timeout_ms=20000, abstract_nl=False, max_decisions=4000):
        self.timeout_ms = timeout_ms
        self.new_solver()
        self.abstract_nl = abstract_nl
        self.max_decisions = max_decisions
        self.nq = 0
        self.tsolve = 0.0
        self.unknown = 0
        self.replayer = None
        self.fresh_checks = False
        self.exact_fallback = False
        self.round_enum = 0
        self.want = None
        self.refine_rounds = 4
        self.reset_path([])

    def new_solver(self):
        # a fresh solver per path: a long-lived solver with thousands of push/pop rounds was observed to hang on queries
        # that a fresh one decides instantly
        self.s = z3.Solver()
        self.s.set("timeout", self.timeout_ms)

    # ---- per path state
    def reset_path(self, prefix):
        self.new_solver()
        # prefix = (branch decisions, memoised feasibility answers) of the common part of the path
        if isinstance(prefix, tuple):
            prefix, self.qprefix = prefix
        else:
            self.qprefix = []
        self.qlog = []
        self.prefix = prefix
        self.fresh = 0
        self.nstub = 0
        self.decisions = []
        self.pending = []
        self.uf_terms = {}
        self.anchors = {}
        self.anchor_done = set()
        self.anchors_dirty = False
        self.nl_seen = {}
        self.nl_pairs = set()
        self.defs = {}
        self.inputs = {}      # name -> z3 const (declared symbolic inputs)
        self.input_kind = {}
        self.hazards = []
        self.reached = []
        self.obls = []        # (label, verdict, model or None)
        self.outputs = {}
        self.model = None
        self.notes = {}

    # ---- solver plumbing
    def add(self, *cs):
        for c in cs:
            if isinstance(c, SB):
                c = c.e
            if isinstance(c, (bool, _np.bool_)):
                if not c:
                    self.s.add(z3.BoolVal(False)); self.model = None
                continue
            self.s.add(c)
            if self.model is not None:
                try:
                    if not z3.is_true(self.model.eval(c, model_completion=True)):
                        self.model = None
                except z3.Z3Exception:
                    self.model = None

    def close_axioms(self):
        if not self.anchors_dirty:
            return
        self.anchors_dirty = False
        for kind, lst in self.uf_terms.items():
            anc = self.anchors.get(kind, {})
            if not anc:
                continue
            inc = not (kind.startswith("pow") and float(kind[3:]) < 0)
            for (a, app) in lst:
                for x0, v0 in anc.items():
                    key = (kind, app.get_id(), x0)
                    if key in self.anchor_done:
                        continue
                    self.anchor_done.add(key)
                    lo, hi = _lohi(v0)
                    x = RV(x0)
                    if inc:
                        self.add(z3.Implies(a <= x, app <= hi), z3.Implies(a >= x, app >= lo))
                    else:
                        self.add(z3.Implies(a <= x, app >= lo), z3.Implies(a >= x, app <= hi))
                    # convexity / concavity tangents at the anchor
                    if kind == "exp":
                        self.add(app >= lo * (1 + a - x))
                    elif kind == "log" and x0 > 0:
                        self.add(app <= hi + (a - x) / x)

    def check(self, *assump):
        import time
        self.close_axioms()
        t = time.time()
        if self.fresh_checks:
            # non-incremental: every query goes to a fresh solver. The incremental core was observed to ignore its timeout
            # (and never return) on linear+UF queries that a fresh solver decides in milliseconds.
            s2 = z3.Solver()
            s2.set("timeout", self.timeout_ms)
            s2.add(self.s.assertions())
            r = s2.check(*assump)
            self._model_src = s2
        else:
            r = self.s.check(*assump)
            self._model_src = self.s
        self.tsolve += time.time() - t
        self.nq += 1
        if r == z3.unknown:
            self.unknown += 1
        return r

    def last_model(self):
        return self._model_src.model()

    def memo(self, fn):
        """value computed from the solver state that later control flow depends on: recorded in the path prefix so that a
        re-execution of the common prefix sees the same value (and needs no query)"""
        i = len(self.qlog)
        if i < len(self.qprefix):
            self.qlog.append(self.qprefix[i])
            return self.qprefix[i]
        v = fn()
        self.qlog.append(v)
        return v

    def feasible(self, cond):
        """can cond hold on the current path? (unknown counts as feasible)"""
        if isinstance(cond, SB):
            cond = cond.e
        if isinstance(cond, (bool, _np.bool_)):
            return bool(cond)
        i = len(self.qlog)
        if i < len(self.qprefix):
            # same deterministic re-execution, same path condition: reuse the answer computed on the parent path
            self.qlog.append(self.qprefix[i])
            return self.qprefix[i]
        if self.model is not None:
            try:
                if z3.is_true(self.model.eval(cond, model_completion=True)):
                    self.qlog.append(True)
                    return True
            except z3.Z3Exception:
                pass
        rr = self.check(cond)
        r = rr != z3.unsat
        self.witness = self.last_model() if rr == z3.sat else None
        self.qlog.append(r)
        return r

    def branch(self, cond):
        cond = z3.simplify(cond)
        if z3.is_true(cond):
            return True
        if z3.is_false(cond):
            return False
        i = len(self.decisions)
        if i >= self.max_decisions:
            raise PathEnd("bound", f"more than {self.max_decisions} decisions on one path")
        if i < len(self.prefix):
            d = self.prefix[i]
            self.decisions.append(d)
            self.add(cond if d else z3.Not(cond))
            return d
        self.close_axioms()
        known = None
        if self.model is not None:
            try:
                v = self.model.eval(cond, model_completion=True)
                if z3.is_true(v): known = True
                elif z3.is_false(v): known = False
            except z3.Z3Exception:
                known = None
        if known is None:
            rt = self.check(cond)
            if rt == z3.sat:
                self.model = self.last_model(); known = True
            elif rt == z3.unsat:
                self.decisions.append(False)
                self.s.add(z3.Not(cond))
                return False
            else:
                # unknown: treat as feasible both ways (over-approximation), flagged in self.unknown
                self.pending.append((self.decisions + [False], list(self.qlog)))
                self.decisions.append(True)
                self.s.add(cond); self.model = None
                return True
        other = z3.Not(cond) if known else cond
        keep = self.model
        ro = self.check(other)
        if ro == z3.unsat:
            self.decisions.append(known)
            self.s.add(cond if known else z3.Not(cond))
            self.model = keep
            return known
        # both feasible (or unknown): follow `known`, push the other side
        self.pending.append((self.decisions + [not known], list(self.qlog)))
        self.decisions.append(known)
        self.s.add(cond if known else z3.Not(cond))
        self.model = keep
        return known

    def enum_int(self, si, limit=400):
        """concretise a symbolic integer by forking over its feasible values (keeps later arithmetic linear)"""
        e = z3.simplify(si.i)
        if z3.is_int_value(e):
            return e.as_long()
        def pick():
            m = self.model
            if m is None:
                if self.check() != z3.sat:
                    raise PathEnd("infeasible", "enum_int on infeasible path")
                m = self.model = self.last_model()
            return m.eval(e, model_completion=True).as_long()
        for _ in range(limit):
            v = self.memo(pick)      # the candidate value is part of the path prefix: re-execution must branch on the same one
            if self.branch(e == v):
                return v
        raise PathEnd("bound", "enum_int: more than %d values" % limit)

    def newreal(self, name):
        self.fresh += 1
        return z3.Real(f"{name}!{len(self.decisions)}!{self.fresh}")

    def newint(self, name):
        self.fresh += 1
        return z3.Int(f"{name}!{len(self.decisions)}!{self.fresh}")

    # ---- harness API (mirrored by ConcCtx)
    def real(self, name, lo=None, hi=None):
        v = z3.Real(name)
        self.inputs[name] = v; self.input_kind[name] = "real"
        if lo is not None: self.s.add(v >= R(lo))
        if hi is not None: self.s.add(v <= R(hi))
        self.model = None
        return SF(v)

    def int(self, name, lo=None, hi=None):
        v = z3.Int(name)
        self.inputs[name] = v; self.input_kind[name] = "int"
        if lo is not None: self.s.add(v >= (lo.i if isinstance(lo, SI) else int(lo)))
        if hi is not None: self.s.add(v <= (hi.i if isinstance(hi, SI) else int(hi)))
        self.model = None
        return SI(v)

    def bool(self, name):
        v = z3.Bool(name)
        self.inputs[name] = v; self.input_kind[name] = "bool"
        self.model = None
        return SB(v)

    def fresh_real(self, name, lo=None, hi=None):
        """fresh symbolic value introduced by a contract stub (also an input for replay purposes)"""
        self.nstub += 1
        return self.real(f"{name}${self.nstub}", lo, hi)

    def arr(self, name, n, lo=None, hi=None):
        """symbolic array; lo/hi scalars or sequences"""
        out = []
        for i in range(n):
            l = lo[i] if isinstance(lo, (list, tuple, _np.ndarray, SArr)) else lo
            h = hi[i] if isinstance(hi, (list, tuple, _np.ndarray, SArr)) else hi
            out.append(self.real(f"{name}[{i}]", l, h))
        return SArr(out)

    def const_arr(self, values):
        return SArr([float(x) if isinstance(x, (float, _np.floating)) else x for x in values])

    def assume(self, cond):
        self.add(cond)

    def reach(self, label):
        if label not in self.reached:
            self.reached.append(label)

    def hazard(self, kind, detail="", with_model=False):
        m = None
        w = getattr(self, "witness", None)
        if with_model and w is not None:
            m = self.model_inputs(w)          # inputs that make the hazardous operand zero / out of domain on this path
        self.hazards.append((kind, detail, list(self.decisions), m))

    def out(self, name, value):
        self.outputs[name] = value

    def note(self, k, v):
        self.notes[k] = v

    def count_steps(self, n):
        """real model day-steps executed on this path (pipeline harnesses): reported as transitions besides the branch decisions"""
        self.notes["steps"] = self.notes.get("steps", 0) + int(n)

    def prove(self, label, cond):
        """obligation: cond holds for every input on this path."""
        if isinstance(cond, (bool, _np.bool_)):
            if cond:
                self.obls.append((label, "unsat", None)); return True
            # concretely false on a feasible path: any model of the path is a counterexample
            r = self.check()
            if r == z3.sat:
                self.obls.append((label, "sat", self.model_inputs(self.last_model()))); return False
            self.obls.append((label, "unknown" if r == z3.unknown else "unsat", None)); return r == z3.unsat
        e = cond.e if isinstance(cond, SB) else cond
        r = self.check(z3.Not(e))
        if r == z3.unsat:
            self.obls.append((label, "unsat", None)); return True
        if r == z3.sat:
            self.obls.append((label, "sat", self.model_inputs(self.last_model()))); return False
        self.obls.append((label, "unknown", None)); return False

    def depends_on(self, names, terms, since=0):
        """syntactic dependence of output terms / path decisions (assertions added after index `since`) on variables"""
        targets = {self.inputs[n].get_id() for n in names}
        seen = set()

        def occurs(t):
            stack = [t]
            while stack:
                x = stack.pop()
                i = x.get_id()
                if i in seen:
                    continue
                seen.add(i)
                if i in targets:
                    return True
                stack.extend(x.children())
            return False
        for t in terms:
            if isinstance(t, (SF, SB)):
                if occurs(t.e):
                    return "output"
        for a in list(self.s.assertions())[since:]:
            if occurs(a):
                return "path"
        return None

    def mark(self):
        return len(self.s.assertions())

    def prove_independent(self, label, names, outputs, rerun, since=0, alts=None, suspected=False):
        """non-interference: the outputs (and the path taken) do not depend on the named inputs.
        Discharged syntactically (the variables occur neither in an output term nor in a decision made after `since`);
        otherwise a concrete two-run witness is searched through the replayer."""
        if self.want is not None:
            head = label.split(":", 1)[0]
            if not any(p.strip() in self.want for p in head.split(",")):
                return True
        flat = []
        for o in outputs:
            flat += list(o) if isinstance(o, (SArr, list, tuple)) else [o]
        dep = "execution" if suspected else self.depends_on(names, flat, since)
        if dep is None:
            self.obls.append((label, "unsat", None, None))
            return True
        m = self.path_model()
        if m is None:
            self.obls.append((label, "unknown", None, None))
            return False
        vals = self.model_inputs(m)
        if self.replayer is not None:
            st, cc = self.replayer(vals)
            if st == "ok" and any(l == label and not ok for (l, ok) in cc.obls):
                self.obls.append((label, "sat-confirmed", vals, None))
                return False
        self.obls.append((label, "sat-unconfirmed", vals, None))
        return False

    def model_inputs(self, m):
        out = {}
        for name, v in self.inputs.items():
            val = m.eval(v, model_completion=True)
            k = self.input_kind[name]
            if k == "real":
                try:
                    fr = val.as_fraction()
                    out[name] = float(fr)
                except Exception:
                    try:
                        out[name] = float(val.approx(30).as_fraction())
                    except Exception:
                        out[name] = None
            elif k == "int":
                out[name] = val.as_long()
            else:
                out[name] = bool(z3.is_true(val))
        return out

    def path_model(self):
        r = self.check()
        if r == z3.sat:
            self.model = self.last_model()
            return self.model
        return None


class ConcCtx:
    """Concrete context: same harness API, values from a dict, real numpy arrays, nothing symbolic."""
    symbolic = False
    abstract_nl = False

    def __init__(self, values):
        self.values = values
        self.obls = []
        self.outputs = {}
        self.reached = []
        self.hazards = []
        self.nstub = 0
        self.notes = {}
        self.missing = []
        self.alts = {}      # tuple(names) -> list of alternative value dicts (filled by real()/int() bounds)
        self.bounds = {}

    def _get(self, name, default):
        if name in self.values and self.values[name] is not None:
            return self.values[name]
        self.missing.append(name)
        return default

    def _chk(self, v, lo, hi, name):
        if lo is not None and v < lo - abs(lo) * 1e-15: raise AssumptionFailed(f"{name}={v} < {lo}")
        if hi is not None and v > hi + abs(hi) * 1e-15: raise AssumptionFailed(f"{name}={v} > {hi}")

    def real(self, name, lo=None, hi=None):
        v = float(self._get(name, lo if lo is not None else (hi if hi is not None else 0.0)))
        self._chk(v, lo, hi, name)
        l = lo if lo is not None else min(v - 1.0, -1.0)
        h = hi if hi is not None else max(v + 1.0, 1.0)
        self.alts[(name,)] = [{name: x} for x in (l, h, (l + h) / 2, l + 0.3183 * (h - l)) if x != v]
        return v

    def int(self, name, lo=None, hi=None):
        v = builtins.int(self._get(name, lo if lo is not None else 0))
        self._chk(v, lo, hi, name)
        return v

    def bool(self, name):
        return builtins.bool(self._get(name, False))

    def fresh_real(self, name, lo=None, hi=None):
        self.nstub += 1
        return self.real(f"{name}${self.nstub}", lo, hi)

    def arr(self, name, n, lo=None, hi=None):
        out = []
        for i in range(n):
            l = lo[i] if isinstance(lo, (list, tuple, _np.ndarray)) else lo
            h = hi[i] if isinstance(hi, (list, tuple, _np.ndarray)) else hi
            out.append(self.real(f"{name}[{i}]", None if l is None else float(l), None if h is None else float(h)))
        return _np.array(out, dtype=float)

    def const_arr(self, values):
        return _np.array(list(values))

    def assume(self, cond):
        if not builtins.bool(cond):
            import traceback
            fr = traceback.extract_stack(limit=3)[0]
            raise AssumptionFailed(f"assumption false on concrete inputs at {fr.filename.split('/')[-1]}:{fr.lineno}")

    def add(self, *c):
        for x in c:
            self.assume(x)

    def reach(self, label):
        if label not in self.reached: self.reached.append(label)

    def hazard(self, kind, detail="", with_model=False):
        self.hazards.append((kind, detail))

    def out(self, name, value):
        self.outputs[name] = value

    def note(self, k, v):
        self.notes[k] = v

    def count_steps(self, n):
        self.notes["steps"] = self.notes.get("steps", 0) + int(n)

    def prove(self, label, cond):
        ok = builtins.bool(cond)
        self.obls.append((label, ok))
        return ok

    def feasible(self, cond):
        return builtins.bool(cond)

    def mark(self):
        return 0

    def prove_independent(self, label, names, outputs, rerun, since=0, alts=None, suspected=False):
        """concrete: re-run with alternative values of the named inputs; outputs must be identical"""
        def flat(os_):
            f = []
            for o in os_:
                f += [float(x) for x in o] if isinstance(o, (list, tuple, _np.ndarray)) else [o]
            return f
        base = flat(outputs)
        ok = True
        for alt in (alts if alts is not None else self.alts.get(tuple(names), [])) or [None]:
            if alt is None:
                continue
            try:
                other = flat(rerun(alt))
            except AssumptionFailed:
                continue
            for a, b in zip(base, other):
                if isinstance(a, (bool, _np.bool_)) or isinstance(b, (bool, _np.bool_)) or a is None or b is None:
                    if a != b: ok = False
                elif not (a == b or (a != a and b != b) or abs(a - b) <= 1e-12 * max(1.0, abs(a), abs(b))):
                    ok = False
            if not ok:
                self.notes.setdefault("independence", []).append((label, alt))
                break
        self.obls.append((label, ok))
        return ok
