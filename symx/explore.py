"""Path exploration, per-path concrete validation, counterexample refinement, 16-way sharding."""
import contextlib
import importlib
import math
import multiprocessing as mp
import os
import sys
import time
import traceback

import numpy as _np
import z3

from . import core
from .core import Ctx, ConcCtx, Abort, PathEnd, AssumptionFailed, PATCH, RV
from .feval import feval, FevalError

HARNESSES = {}
_ACTIVE = [None]


def active():
    """the context (symbolic or concrete) of the harness run in progress - for contract stubs"""
    return _ACTIVE[-1]


class Harness:
    def __init__(self, name, fn, modules, props, configs, opts):
        self.name = name
        self.fn = fn
        self.modules = modules      # module names whose globals get the symbolic np/builtins
        self.props = props
        self.configs = configs      # callable(tier) -> list of (cfgkey, cfg dict)
        self.opts = opts            # abstract_nl, timeout_ms, max_decisions, goals, stubs


def harness(name, modules, props, configs, **opts):
    def deco(fn):
        HARNESSES[name] = Harness(name, fn, modules, props, configs, opts)
        return fn
    return deco


# --------------------------------------------------------------------------- patching
_ORIG = {}


def _mods(names):
    return [importlib.import_module(n) for n in names]


@contextlib.contextmanager
def patched(modnames, on=True):
    """rebind np/max/min/round/float/int/abs/range in the modules' globals (on) or restore them (off)."""
    mods = _mods(modnames)
    saved = []
    for m in mods:
        for k, v in PATCH.items():
            if k == "np" and not hasattr(m, "np"):
                continue
            key = (m.__name__, k)
            if key not in _ORIG:
                _ORIG[key] = m.__dict__.get(k, _MISSING)
            saved.append((m, k, m.__dict__.get(k, _MISSING)))
            if on:
                setattr(m, k, v)
            else:
                o = _ORIG[key]
                if o is _MISSING:
                    m.__dict__.pop(k, None)
                else:
                    setattr(m, k, o)
    try:
        yield
    finally:
        for m, k, old in reversed(saved):
            if old is _MISSING:
                m.__dict__.pop(k, None)
            else:
                setattr(m, k, old)


_MISSING = object()


@contextlib.contextmanager
def stubbed(stubs):
    """stubs: {module name: {attr: replacement}} installed for the duration."""
    saved = []
    for mn, d in (stubs or {}).items():
        m = importlib.import_module(mn)
        for k, v in d.items():
            saved.append((m, k, m.__dict__.get(k, _MISSING)))
            setattr(m, k, v)
    try:
        yield
    finally:
        for m, k, old in reversed(saved):
            if old is _MISSING:
                m.__dict__.pop(k, None)
            else:
                setattr(m, k, old)


# --------------------------------------------------------------------------- concrete runs
def run_concrete(h, cfg, values):
    """run harness h on concrete inputs with the UNPATCHED modules (real numpy, real builtins).
    returns (status, ConcCtx)"""
    cc = ConcCtx(values)
    _ACTIVE.append(cc)
    saved_cur = Ctx.cur
    Ctx.cur = None
    status = "ok"
    try:
        with patched(h.modules, on=False), _np.errstate(all="ignore"):
            import warnings
            with warnings.catch_warnings():
                warnings.simplefilter("ignore")
                h.fn(cc, cfg)
    except AssumptionFailed as e:
        status = "assumption"
        cc.notes["assumption"] = str(e)
    except PathEnd as e:
        status = "pathend:" + e.kind
    except Abort as e:
        status = "abort"
        cc.notes["abort"] = str(e)
    except Exception as e:  # real code raised
        status = "raised"
        cc.notes["raised"] = f"{type(e).__name__}: {e}"
        cc.notes["where"] = _where(e)
    finally:
        Ctx.cur = saved_cur
        _ACTIVE.pop()
    return status, cc


def _where(e):
    tb = traceback.extract_tb(e.__traceback__)
    for fr in reversed(tb):
        if "/aquacrop/" in fr.filename:
            return f"{os.path.relpath(fr.filename, '/repo')}:{fr.lineno}"
    if tb:
        fr = tb[-1]
        return f"{fr.filename}:{fr.lineno}"
    return "?"


def _tofloat(x):
    if isinstance(x, (bool, _np.bool_)):
        return float(x)
    if isinstance(x, (int, float, _np.integer, _np.floating)):
        return float(x)
    if isinstance(x, _np.ndarray) and x.ndim == 0:
        return float(x)
    return None


# --------------------------------------------------------------------------- refinement
def _mval(m, e):
    v = m.eval(e, model_completion=True)
    try:
        return float(v.as_fraction())
    except Exception:
        try:
            return float(v.approx(20).as_fraction())
        except Exception:
            return None


def _numf(e):
    return float(e.as_long()) if z3.is_int_value(e) else float(e.as_fraction())


def refine(ctx, m):
    """add true-value facts for every UF / abstract product application at the model's arguments"""
    added = 0
    for kind, lst in list(ctx.uf_terms.items()):
        for (a, app) in lst:
            x0 = _mval(m, a)
            if x0 is None:
                continue
            try:
                if kind == "log" and x0 <= 0:
                    continue
                if kind.startswith("pow") and x0 < 0:
                    continue
                v0 = core.true_value(kind, x0)
            except (ValueError, OverflowError, ZeroDivisionError):
                continue
            if x0 not in ctx.anchors.setdefault(kind, {}):
                ctx.anchors[kind][x0] = v0
                ctx.anchors_dirty = True
                added += 1
    # secants between neighbouring anchors (upper bound for convex exp, lower for concave log)
    for kind in ("exp", "log"):
        anc = sorted(ctx.anchors.get(kind, {}).items())
        for (x1, v1), (x2, v2) in zip(anc, anc[1:]):
            if x2 - x1 < 1e-12:
                continue
            key = (kind, "sec", x1, x2)
            if key in ctx.anchor_done:
                continue
            ctx.anchor_done.add(key)
            slope = (v2 - v1) / (x2 - x1)
            for (a, app) in ctx.uf_terms.get(kind, []):
                inside = z3.And(a >= RV(x1), a <= RV(x2))
                line = RV(v1) + RV(slope) * (a - RV(x1))
                tol = RV((abs(v1) + abs(v2)) * core.EPS * 4 + 1e-300)
                if kind == "exp":
                    ctx.add(z3.Implies(inside, app <= line + tol))
                else:
                    ctx.add(z3.Implies(inside, app >= line - tol))
    # interval cuts for abstract products from bounds that the path condition states syntactically (t <= c, t >= c)
    bounds = {}
    for asr in ctx.s.assertions():
        e = asr
        neg = False
        if z3.is_not(e):
            e = e.arg(0); neg = True
        if not z3.is_app(e) or e.num_args() != 2:
            continue
        kd = e.decl().kind()
        if kd not in (z3.Z3_OP_LE, z3.Z3_OP_GE, z3.Z3_OP_LT, z3.Z3_OP_GT):
            continue
        l, r = e.arg(0), e.arg(1)
        if core._isnum(r) and not core._isnum(l):
            t_, c_, kk = l, _numf(r), kd
        elif core._isnum(l) and not core._isnum(r):
            t_, c_ = r, _numf(l)
            kk = {z3.Z3_OP_LE: z3.Z3_OP_GE, z3.Z3_OP_GE: z3.Z3_OP_LE, z3.Z3_OP_LT: z3.Z3_OP_GT, z3.Z3_OP_GT: z3.Z3_OP_LT}[kd]
        else:
            continue
        upper = kk in (z3.Z3_OP_LE, z3.Z3_OP_LT)
        if neg:
            upper = not upper
        lo, hi = bounds.get(t_.get_id(), (None, None))
        if upper:
            hi = c_ if hi is None else min(hi, c_)
        else:
            lo = c_ if lo is None else max(lo, c_)
        bounds[t_.get_id()] = (lo, hi)
    for key, (k, a, b, t) in list(ctx.nl_seen.items()):
        if k == "mul":
            (la, ha), (lb, hb) = bounds.get(a.get_id(), (None, None)), bounds.get(b.get_id(), (None, None))
            dk = (key, "iv", ha, hb)
            if dk not in ctx.anchor_done and (ha is not None or hb is not None):
                ctx.anchor_done.add(dk)
                if ha is not None and ha >= 0:
                    ctx.add(z3.Implies(z3.And(a >= 0, b >= 0, a <= RV(ha)), t <= RV(ha) * b))
                    added += 1
                if hb is not None and hb >= 0:
                    ctx.add(z3.Implies(z3.And(a >= 0, b >= 0, b <= RV(hb)), t <= a * RV(hb)))
                    added += 1
    for key, (k, a, b, t) in list(ctx.nl_seen.items()):
        a0 = _mval(m, a); b0 = _mval(m, b)
        if a0 is None or b0 is None:
            continue
        if k == "mul":
            x, y, mm, x0, y0 = a, b, t, a0, b0
        else:
            if b0 == 0:
                continue
            # a = t * b
            x, y, mm, x0, y0 = t, b, a, a0 / b0, b0
        done = (key, round(x0, 12), round(y0, 12))
        if done in ctx.anchor_done:
            continue
        ctx.anchor_done.add(done)
        X0, Y0 = RV(x0), RV(y0)
        lin = X0 * y + x * Y0 - X0 * Y0
        tol = RV(abs(x0 * y0) * 1e-12 + 1e-15)
        ctx.add(z3.Implies(z3.And(x >= X0, y >= Y0), mm >= lin - tol), z3.Implies(z3.And(x <= X0, y <= Y0), mm >= lin - tol),
                z3.Implies(z3.And(x >= X0, y <= Y0), mm <= lin + tol), z3.Implies(z3.And(x <= X0, y >= Y0), mm <= lin + tol))
        added += 1
    return added


def _exact_unsat(ctx, neg):
    try:
        x, y = z3.Var(0, z3.RealSort()), z3.Var(1, z3.RealSort())
        subs = ((core._MUL, x * y), (core._DIV, x / y))
        s2 = z3.Solver()
        s2.set("timeout", max(ctx.timeout_ms * 6, 90000))     # few paths need it; generous so that a loaded machine does not turn it into "unknown"
        for a in ctx.s.assertions():
            s2.add(z3.substitute_funs(a, *subs))
        s2.add(z3.substitute_funs(neg, *subs))
        ctx.nq += 1
        t = time.time()
        r = s2.check()
        ctx.tsolve += time.time() - t
        return r == z3.unsat
    except z3.Z3Exception:
        return False


# --------------------------------------------------------------------------- second solver (cvc5) on sampled obligations
XCHECK_EVERY = int(os.environ.get("SYMX_XCHECK", "0") or 0)      # every k-th obligation that z3 answered 'unsat' (per worker); 0 = off
XCHECK_FIRST = 8
XCHECK_TLIMIT_MS = int(os.environ.get("SYMX_XCHECK_TLIMIT_MS", "10000"))


def _xc(ctx):
    d = getattr(ctx, "xc", None)
    if d is None:
        d = ctx.xc = {"seen": 0, "n": 0, "agree": 0, "unknown": 0, "disagree": 0, "t": 0.0, "disagreements": []}
    return d


def cvc5_check_smt2(txt, tlimit_ms):
    import cvc5
    slv = cvc5.Solver()
    slv.setOption("tlimit-per", str(tlimit_ms))
    slv.setLogic("ALL")
    sm = cvc5.SymbolManager(slv)
    p = cvc5.InputParser(slv, sm)
    p.setStringInput(cvc5.InputLanguage.SMT_LIB_2_6, txt, "obligation")
    res = None
    while True:
        c = p.nextCommand()
        if c.isNull():
            break
        out = c.invoke(slv, sm)
        if c.getCommandName() == "check-sat":
            res = str(out).strip()
    return res


def cross_check(ctx, label, neg):
    """The query z3 just answered 'unsat' (path condition + axioms + negated clause) is exported as SMT-LIB2 and decided again by
    cvc5. Returns 'agree' | 'unknown' | 'disagree' | None (not sampled / cvc5 missing)."""
    if XCHECK_EVERY <= 0:
        return None
    d = _xc(ctx)
    d["seen"] += 1
    if d["seen"] > XCHECK_FIRST and d["seen"] % XCHECK_EVERY:     # the first few of every worker always, then every k-th
        return None
    t = time.time()
    try:
        s2 = z3.Solver()
        s2.add(ctx.s.assertions())
        s2.add(neg)
        r = cvc5_check_smt2(s2.to_smt2(), XCHECK_TLIMIT_MS)
    except ImportError:
        return None
    except Exception as e:       # parse problem / resource limit: inconclusive for the second solver, never silently 'agree'
        r = "error:" + type(e).__name__
    d["t"] += time.time() - t
    d["n"] += 1
    if r == "unsat":
        d["agree"] += 1
        return "agree"
    if r == "sat":
        d["disagree"] += 1
        if len(d["disagreements"]) < 5:
            d["disagreements"].append(label)
        return "disagree"
    d["unknown"] += 1
    return "unknown"


def prove_with_refinement(ctx, label, cond):
    """Ctx.prove + function-level replay + CEGAR on the abstractions. Returns verdict string."""
    if ctx.want is not None:
        head = label.split(":", 1)[0]
        ps = [x.strip() for x in head.split(",")]
        if not any(p in ctx.want for p in ps):
            return True
    if isinstance(cond, (bool, _np.bool_)):
        if cond:
            ctx.obls.append((label, "unsat", None, None))
            return True
        e = z3.BoolVal(False)
    else:
        e = cond.e if isinstance(cond, core.SB) else cond
    neg = z3.Not(e)
    rounds = 0
    while True:
        r = ctx.check(neg)
        if r == z3.unsat:
            if cross_check(ctx, label, neg) == "disagree":
                # the two solvers disagree on the same SMT-LIB2 text: neither verdict is believed
                ctx.obls.append((label, "unknown", None, None))
                return False
            ctx.obls.append((label, "unsat" if rounds == 0 else "unsat-refined", None, None))
            return True
        if r == z3.unknown:
            ctx.obls.append((label, "unknown", None, None))
            return False
        m = ctx.last_model()
        vals = ctx.model_inputs(m)
        confirmed = None
        if ctx.replayer is not None:
            st, cc = ctx.replayer(vals)
            if st == "ok":
                res = [ok for (l, ok) in cc.obls if l == label]
                if res:
                    confirmed = not all(res)
            elif st == "raised":
                confirmed = None
        if confirmed:
            ctx.obls.append((label, "sat-confirmed", vals, None))
            return False
        has_abs = bool(ctx.uf_terms) or bool(ctx.nl_seen)
        if rounds >= ctx.refine_rounds or not has_abs or refine(ctx, m) == 0:
            # last resort: the abstract products/quotients replaced by exact multiplication/division (nonlinear real arithmetic)
            if ctx.nl_seen and ctx.exact_fallback and _exact_unsat(ctx, neg):
                ctx.obls.append((label, "unsat-refined", None, None))
                return True
            ctx.obls.append((label, "sat-unconfirmed", vals, None))
            return False
        rounds += 1


# --------------------------------------------------------------------------- one path
def run_path(h, cfg, ctx, prefix, validate=True):
    ctx.reset_path(prefix)
    ctx.replayer = lambda vals: run_concrete(h, cfg, vals)
    ctx.prove = lambda label, cond: prove_with_refinement(ctx, label, cond)
    res = {"status": "ok", "decisions": None, "obls": [], "hazards": [], "reached": [], "validated": "skip", "detail": None}
    Ctx.cur = ctx
    _ACTIVE.append(ctx)
    try:
        try:
            with patched(h.modules, on=True):
                h.fn(ctx, cfg)
        except PathEnd as e:
            res["status"] = e.kind
            res["detail"] = e.msg
        except Abort as e:
            res["status"] = "abort"
            res["detail"] = str(e)
            tb = traceback.extract_tb(e.__traceback__)
            for fr in reversed(tb):
                if "/aquacrop/" in fr.filename or "/harness/" in fr.filename:
                    res["detail"] += f" @ {os.path.basename(fr.filename)}:{fr.lineno}"
                    break
        except AssumptionFailed as e:
            res["status"] = "abort"; res["detail"] = "assumption in symbolic mode: " + str(e)
        except RecursionError:
            res["status"] = "abort"; res["detail"] = "recursion"
        except Exception as e:
            res["status"] = "raised"
            res["detail"] = f"{type(e).__name__}: {e} @ {_where(e)}"
            if "/aquacrop/" not in "".join(fr.filename for fr in traceback.extract_tb(e.__traceback__)[-1:]) and \
               not any("/aquacrop/" in fr.filename for fr in traceback.extract_tb(e.__traceback__)):
                res["status"] = "abort"   # exception from harness/engine, not from the code under analysis
                res["detail"] = "harness exception: " + res["detail"] + " | " + traceback.format_exc(limit=-3)[-300:]
        # path feasibility + model for validation
        pm = None
        r = ctx.check()
        if r == z3.unsat:
            res["status"] = "infeasible"
        elif r == z3.sat:
            pm = ctx.last_model()
        else:
            # feasibility of the bare path undecided: harmless when every obligation on it got a definite verdict
            if res["status"] == "ok" and any(o[1] == "unknown" for o in ctx.obls):
                res["status"] = "unknown-path"
        if res["status"] == "raised" and pm is not None:
            vals = ctx.model_inputs(pm)
            st, cc = run_concrete(h, cfg, vals)
            res["hazards"].append(("raise", res["detail"], vals, st == "raised"))
        if res["status"] != "infeasible":
            res["obls"] = [(o[0], o[1], o[2]) for o in ctx.obls]
            # arithmetic hazards with a witness: replay on the unpatched code; confirmed = the real function raises or returns a
            # non-finite output for those inputs (at most one replay per kind and path)
            seenk = set()
            for (k, d, dec, m) in ctx.hazards:
                conf = None
                if m is not None and k in ("div0", "log-domain", "pow-domain") and k not in seenk and (h.opts.get("decide_hazards", False) or os.environ.get("SYMX_DECIDE_HAZARDS")):
                    seenk.add(k)
                    st, cc = run_concrete(h, cfg, m)
                    if st == "raised":
                        conf = True
                        d = f"{d} -> real code raised {cc.notes.get('raised')} at {cc.notes.get('where')}"
                    elif st == "ok":
                        bad = [n for n, v in cc.outputs.items() for x in (list(v) if isinstance(v, (list, tuple, _np.ndarray)) else [v])
                               if isinstance(x, (float, _np.floating)) and not math.isfinite(x)]
                        if bad:
                            conf = True
                            d = f"{d} -> non-finite output(s) {sorted(set(bad))[:4]} on the real code"
                        else:
                            conf = False
                res["hazards"].append((k if conf is not True else k + "!", d, m, conf))
            res["reached"] = list(ctx.reached)
        res["decisions"] = list(ctx.decisions)
        res["steps"] = int(ctx.notes.get("steps", 0))
        res["pending"] = list(ctx.pending)
        if validate and res["status"] == "ok" and pm is not None:
            res["validated"], res["vdetail"] = validate_path(h, cfg, ctx, pm)
    finally:
        _ACTIVE.pop()
        Ctx.cur = None
    return res


def validate_path(h, cfg, ctx, pm):
    """replay the path's model on the unpatched code; compare obligations and outputs."""
    vals = ctx.model_inputs(pm)
    st, cc = run_concrete(h, cfg, vals)
    if st == "assumption" or st.startswith("pathend"):
        return "ok-offpath", cc.notes.get("assumption")
    if st != "ok":
        return "mismatch", f"concrete run ended {st}: {cc.notes}"
    conc = {}
    for l, ok in cc.obls:
        conc[l] = conc.get(l, True) and ok
    bad = [l for (l, v, *_ ) in ctx.obls if v.startswith("unsat") and conc.get(l, True) is False]
    if bad:
        return "obl-mismatch", {"labels": bad, "inputs": vals}
    # outputs: evaluate the symbolic output terms on float inputs.  The model usually sits on a vertex of the
    # path polytope, so its float image may leave the path: try small perturbations to get an interior point.
    import random
    rnd = random.Random(len(ctx.decisions))
    asserts = list(ctx.s.assertions())
    defs = dict(ctx.defs)
    names = {name: str(v) for name, v in ctx.inputs.items()}
    if any(vals.get(n) is None for n in names):
        return "ok-noout", None

    def onpath(vs):
        env = {names[n]: vs[n] for n in names}
        for a in asserts:
            if not feval(a, env, defs):
                return None
        return env
    def compare(env, cc_):
        """None if all outputs agree, else a description"""
        for name, sym in ctx.outputs.items():
            cv = cc_.outputs.get(name)
            if isinstance(sym, core.SArr) or isinstance(sym, (list, tuple, _np.ndarray)):
                pairs = list(zip(list(sym), list(cv)))
            else:
                pairs = [(sym, cv)]
            for s_, c_ in pairs:
                if isinstance(s_, core.SNaN):
                    cf = _tofloat(c_)
                    if cf is not None and not math.isnan(cf):
                        return f"output {name}: symbolic NaN, concrete {c_}"
                    continue
                sv = feval(core.R(s_), env, defs) if isinstance(s_, (core.SF, core.SB)) else _tofloat(s_)
                cf = _tofloat(c_)
                if sv is None or cf is None:
                    continue
                if isinstance(sv, bool): sv = float(sv)
                if not (abs(sv - cf) <= 1e-7 * max(1.0, abs(sv), abs(cf))):
                    return f"output {name}: symbolic {sv!r} concrete {cf!r}"
        return None

    def perturb():
        c = {}
        for n, v in vals.items():
            if ctx.input_kind[n] == "real" and isinstance(v, float):
                c[n] = v * (1 + rnd.uniform(-1, 1) * 10 ** rnd.uniform(-9, -3)) + rnd.uniform(-1, 1) * 10 ** rnd.uniform(-12, -6)
            else:
                c[n] = v
        return c
    try:
        # a model sits on a vertex of the path polytope: knife-edge comparisons may resolve differently in IEEE
        # arithmetic. A mismatch counts only if it persists on perturbed (interior) points of the same path.
        tried = 0
        bad = None
        for k in range(8):
            cand = vals if k == 0 else perturb()
            if k == 0:
                cc_ = cc
            else:
                st, cc_ = run_concrete(h, cfg, cand)
                if st != "ok":
                    continue
            env = {names[n]: cand[n] for n in names}
            d = compare(env, cc_)          # cheap: only the output terms are evaluated
            if d is None:
                return "ok", None
            if onpath(cand) is None:        # outputs differ but the floats left this path: says nothing about the encoding
                continue
            tried += 1
            bad = f"{d} inputs {cand}"
            if tried >= 3:
                break
        if tried >= 2:
            return "mismatch", bad
        return "ok-offpath", bad
    except FevalError as e:
        return "ok-noeval", str(e)


# --------------------------------------------------------------------------- chunk worker
_WCTX = {}
WANT = [None]     # set of property ids whose obligations are discharged (None = all); inherited by forked workers


def _get_ctx(h):
    key = (h.opts.get("abstract_nl", False), h.opts.get("timeout_ms", 30000), h.opts.get("max_decisions", 3000))
    c = _WCTX.get(key)
    if c is None:
        c = Ctx(timeout_ms=key[1], abstract_nl=key[0], max_decisions=key[2])
        _WCTX[key] = c
    c.refine_rounds = h.opts.get("refine_rounds", 4)
    c.round_enum = h.opts.get("round_enum", 0)
    c.exact_fallback = h.opts.get("exact_fallback", False)
    return c


def run_chunk(task):
    hname, cfgkey, cfg, prefixes, budget_paths, budget_s, validate = task[:7]
    h = HARNESSES[hname]
    ctx = _get_ctx(h)
    ctx.fresh_checks = bool(task[7]) if len(task) > 7 else False
    ctx.want = WANT[0]
    q0, t0s, u0 = ctx.nq, ctx.tsolve, ctx.unknown
    x0 = dict(_xc(ctx)); x0["disagreements"] = list(x0["disagreements"])
    def xdelta():
        x1 = _xc(ctx)
        d = {k: x1[k] - x0[k] for k in ("n", "agree", "unknown", "disagree", "t")}
        d["disagreements"] = x1["disagreements"][len(x0["disagreements"]):]
        return d
    t0 = time.time()
    work = list(prefixes)
    out = []
    try:
        while work and len(out) < budget_paths and time.time() - t0 < budget_s:
            p = work.pop()
            r = run_path(h, cfg, ctx, p, validate=validate)
            work.extend(r.pop("pending"))
            out.append(r)
    except BaseException as e:  # engine failure: report, never swallow
        return {"hname": hname, "cfgkey": cfgkey, "error": f"{type(e).__name__}: {e}\n{traceback.format_exc()[-1500:]}",
                "results": out, "leftover": work, "nq": ctx.nq - q0, "tsolve": ctx.tsolve - t0s, "unknown": ctx.unknown - u0, "xc": xdelta()}
    return {"hname": hname, "cfgkey": cfgkey, "results": out, "leftover": work,
            "nq": ctx.nq - q0, "tsolve": ctx.tsolve - t0s, "unknown": ctx.unknown - u0, "xc": xdelta()}


# --------------------------------------------------------------------------- aggregate
class Agg:
    """per (harness, config) aggregate of path results"""

    def __init__(self, hname, cfgkey):
        self.hname = hname; self.cfgkey = cfgkey
        self.paths = 0; self.by_status = {}
        self.decisions = 0
        self.labels = {}       # label -> dict(unsat, refined, confirmed, unconfirmed, unknown, cex)
        self.hazards = {}      # kind -> dict(n, sample)
        self.reached = set()
        self.validated = {}
        self.mismatches = []
        self.aborts = {}
        self.nq = 0; self.tsolve = 0.0; self.unknown = 0
        self.errors = []
        self.samples = []
        self.truncated = 0
        self.xc = {"n": 0, "agree": 0, "unknown": 0, "disagree": 0, "t": 0.0, "disagreements": []}

    def add_chunk(self, ch):
        self.nq += ch["nq"]; self.tsolve += ch["tsolve"]; self.unknown += ch["unknown"]
        x = ch.get("xc")
        if x:
            for k in ("n", "agree", "unknown", "disagree", "t"):
                self.xc[k] += x[k]
            self.xc["disagreements"] = (self.xc["disagreements"] + x["disagreements"])[:5]
        if ch.get("error"):
            self.errors.append(ch["error"])
        for r in ch["results"]:
            self.add(r)

    def add(self, r):
        st = r["status"]
        self.by_status[st] = self.by_status.get(st, 0) + 1
        if st == "infeasible":
            return
        self.paths += 1
        self.decisions += len(r["decisions"] or []) + int(r.get("steps", 0))
        if st == "abort":
            k = (r["detail"] or "")[:160]
            self.aborts[k] = self.aborts.get(k, 0) + 1
        for (l, v, mv) in r["obls"]:
            d = self.labels.setdefault(l, {"unsat": 0, "refined": 0, "confirmed": 0, "unconfirmed": 0, "unknown": 0, "cex": None, "ucex": None})
            if v == "unsat": d["unsat"] += 1
            elif v == "unsat-refined": d["unsat"] += 1; d["refined"] += 1
            elif v in ("sat-confirmed", "sat"):
                d["confirmed"] += 1
                if d["cex"] is None: d["cex"] = {"inputs": mv, "decisions": r["decisions"]}
            elif v == "sat-unconfirmed":
                d["unconfirmed"] += 1
                if d["ucex"] is None: d["ucex"] = {"inputs": mv, "decisions": r["decisions"]}
            else:
                d["unknown"] += 1
        for (k, dtl, m, conf) in r["hazards"]:
            d = self.hazards.setdefault(k, {"n": 0, "sample": None, "confirmed": 0})
            d["n"] += 1
            if conf: d["confirmed"] += 1
            if d["sample"] is None or (conf and not d["sample"].get("confirmed")):
                d["sample"] = {"detail": dtl, "inputs": m, "confirmed": bool(conf)}
        self.reached.update(r["reached"])
        v = r["validated"]
        self.validated[v] = self.validated.get(v, 0) + 1
        if v in ("mismatch", "obl-mismatch"):
            self.mismatches.append((v, r.get("vdetail")))
        if len(self.samples) < 3 and st == "ok":
            self.samples.append({"harness": self.hname, "config": self.cfgkey, "path_decisions": "".join("T" if d else "F" for d in r["decisions"])[:200],
                                 "obligations": [(l, v) for (l, v, _) in r["obls"]][:12], "validated": v})


# --------------------------------------------------------------------------- driver
def _worker_main(wid, conn, rq):
    import signal
    signal.signal(signal.SIGINT, signal.SIG_IGN)
    if os.environ.get("SYMX_DEBUG_HANG"):
        import faulthandler
        faulthandler.dump_traceback_later(int(os.environ["SYMX_DEBUG_HANG"]), repeat=True, file=open(f"/tmp/symx_worker_{wid}.tb", "w"))
    while True:
        try:
            t = conn.recv()
        except EOFError:
            return
        if t is None:
            return
        tid, task = t
        try:
            r = run_chunk(task)
        except BaseException as e:
            r = {"hname": task[0], "cfgkey": task[1], "error": f"worker exception {type(e).__name__}: {e}", "results": [], "leftover": list(task[3]),
                 "nq": 0, "tsolve": 0.0, "unknown": 0}
        rq.put((wid, tid, r))


class _Pool:
    """fork-based worker pool that survives worker crashes and runaway solver calls (a dead or overdue worker is replaced and
    its task retried once, then split, then reported as an engine error -> inconclusive)."""

    def __init__(self, n):
        self.ctx = mp.get_context("fork")
        self.rq = self.ctx.Queue()
        self.workers = {}
        self.n = n
        for i in range(n):
            self._spawn(i)

    def _spawn(self, i):
        # tasks go through a Pipe (synchronous send, no feeder thread): the master stays single-threaded, so forking a
        # replacement worker later cannot inherit a lock held by another thread
        parent, child = self.ctx.Pipe()
        p = self.ctx.Process(target=_worker_main, args=(i, child, self.rq), daemon=True)
        p.start()
        child.close()
        self.workers[i] = {"p": p, "tq": parent, "task": None, "t0": None}

    def idle(self):
        return [i for i, w in self.workers.items() if w["task"] is None]

    def submit(self, i, tid, task):
        w = self.workers[i]
        w["task"] = (tid, task); w["t0"] = time.time()
        w["tq"].send((tid, task))

    def poll(self, limit_s):
        """returns list of (tid, result or None-if-lost, task)"""
        out = []
        try:
            while True:
                wid, tid, r = self.rq.get(timeout=0.02 if not out else 0)
                w = self.workers[wid]
                if w["task"] is not None and w["task"][0] == tid:
                    out.append((tid, r, w["task"][1]))
                    w["task"] = None
        except Exception:
            pass
        now = time.time()
        for i, w in list(self.workers.items()):
            if w["task"] is None:
                continue
            dead = not w["p"].is_alive()
            late = now - w["t0"] > limit_s
            if dead or late:
                tid, task = w["task"]
                sys.stderr.write(f"[symx] worker {i} {'died (exit code %s)' % w['p'].exitcode if dead else 'overdue'} on {task[0]}[{task[1]}] after {now - w['t0']:.0f}s\n")
                try:
                    w["p"].kill()
                except Exception:
                    pass
                self._spawn(i)
                out.append((tid, None, task))
        return out

    def close(self):
        for w in self.workers.values():
            try:
                w["tq"].send(None)
            except Exception:
                pass
        time.sleep(0.05)
        for w in self.workers.values():
            try:
                w["p"].kill()
            except Exception:
                pass


def explore_many(jobs, nproc=None, chunk_paths=60, chunk_s=20.0, validate=True, max_paths=None, deadline=None, log=None):
    """jobs: list of (hname, cfgkey, cfg). Explores all of them exhaustively over a process pool.
    Returns {(hname, cfgkey): Agg}."""
    nproc = nproc or min(16, os.cpu_count() or 1)
    aggs = {(hn, ck): Agg(hn, ck) for (hn, ck, _) in jobs}
    cfgs = {(hn, ck): cfg for (hn, ck, cfg) in jobs}
    queue = [((hn, ck), [[]], 0) for (hn, ck, _) in jobs]   # (job, prefixes, strikes)
    first = {k: True for k in aggs}
    if nproc == 1:
        while queue:
            k, prefixes, _ = queue.pop()
            ch = run_chunk((k[0], k[1], cfgs[k], prefixes, 10 ** 9, 10 ** 9, validate))
            aggs[k].add_chunk(ch)
        return aggs
    pool = _Pool(nproc)
    tid = 0
    strikes = {}
    inflight = 0
    hard_limit = chunk_s * 3 + 240
    try:
        while queue or inflight:
            for i in pool.idle():
                if not queue:
                    break
                k, prefixes, st = queue.pop(0)
                small = first[k] or (len(queue) + inflight < 2 * nproc)
                first[k] = False
                tid += 1
                strikes[tid] = st
                # a prefix whose worker was lost once (solver call not returning) is retried with non-incremental solving
                pool.submit(i, tid, (k[0], k[1], cfgs[k], prefixes, 4 if small else chunk_paths, chunk_s, validate, st > 0))
                inflight += 1
            for (t, ch, task) in pool.poll(hard_limit):
                inflight -= 1
                k = (task[0], task[1])
                a = aggs[k]
                if ch is None:
                    st = strikes.get(t, 0) + 1
                    pf = task[3]
                    if len(pf) > 1:
                        for p in pf:
                            queue.append((k, [p], st))
                    elif st < 2:
                        queue.append((k, pf, st))
                    else:
                        a.errors.append(f"worker lost or overdue twice on prefix of length {len(pf[0][0]) if isinstance(pf[0], tuple) else len(pf[0])} (solver call not returning / crash)")
                    continue
                a.add_chunk(ch)
                left = ch["leftover"]
                over = (max_paths is not None and a.paths >= max_paths) or (deadline is not None and time.time() > deadline)
                if left and over:
                    a.truncated += len(left)
                    left = []
                if left:
                    n = max(1, min(len(left), 2 * nproc if len(queue) + inflight < 2 * nproc else 4))
                    for i in range(n):
                        part = left[i::n]
                        if part:
                            queue.append((k, part, 0))
    finally:
        pool.close()
    return aggs
